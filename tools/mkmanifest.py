#!/usr/bin/env python3
"""Regenerate /verif/MANIFEST.json from the table below (kept valid at all times)."""
import json
import os
import subprocess

ROOT = os.path.dirname(os.path.dirname(os.path.abspath(__file__)))

TB = ("trusted base: the installed CPython reference interpreters (2.7, 3.6-3.13), vf/oracle/truth.py, vf/canon.py, "
      "the JSON transport and the per-property comparator; generators are untrusted (every input is written or judged by a real interpreter)")

CHECKS = {
    "C01": ("exploration", "differential runtime monitoring: xdis load_module/load_code result vs the producing CPython's marshal.loads, field by field, + payload-consumed postcondition on the real load_code",
            "Held on the observed files only: V's own stdlib (sample quick / all thorough), seeded generated programs, corpus files; every code object compared with the interpreter that wrote it. Versions without an installed interpreter get no equality claim.", "7/C01"),
    "C02": ("exploration", "differential runtime monitoring of the instruction stream against CPython dis + reference-free tiling invariant",
            "Instruction streams of every observed code object tile co_code and agree with V's dis at V's offsets; code objects above a size cap are sampled in quick (xdis is quadratic there).", "7/C02"),
    "C03": ("exploration", "differential runtime monitoring of resolved operands (argval) against CPython dis",
            "Every table-indexed instruction in the observed programs resolves to the canonical value CPython's dis resolves; instructions CPython itself leaves unresolved are skipped and counted.", "7/C03"),
    "C04": ("exploration", "differential runtime monitoring of labels / jump targets / is_jump_target against CPython dis + internal consistency invariants",
            "findlabels, jump argvals and is_jump_target flags agree with V and with each other on the observed code objects.", "7/C04"),
    "C05": ("exploration", "differential runtime monitoring of line starts against CPython dis.findlinestarts + reference-model monitor for offset2line",
            "findlinestarts / starts_line equal V's on observed code objects (dup_lines=False exact, dup_lines=True consistent superset); offset2line checked against a linear scan on every observed mapping.", "7/C05"),
    "C17": ("exploration", "differential runtime monitoring of 3.11+ exception/location tables against CPython co_positions/co_lines/_parse_exception_table",
            "Per code unit positions, line map and exception entries of observed 3.11-3.13 code objects equal V's.", "7/C17"),
    "C08": ("exploration", "exhaustive runtime enumeration of the magic tables with CPython's registry comment and the installed interpreters as oracle",
            "All 65536 magic ints, all registry rows, all known magics, all release names and all installed interpreters are checked on every run (exhaustive for the finite parts).", "7/C08"),
    "C09": ("exploration", "exhaustive runtime enumeration of every opcode table against the interpreters' opcode modules + structural invariants (bijection, categories, documented jump names, EXTENDED_ARG shift) + enumeration of every lookup key / (version, flavour) pair / float and unlisted-micro form to the table it reaches, on several hosts",
            "All opcode modules x 256 opcodes x category sets; equality with `opcode` of the 9 installed interpreters; reference-free invariants for the rest; tables dumped on several hosts must be identical.", "7/C09"),
    "C15": ("exploration", "differential runtime monitoring over the (opcode, operand) grid and the operand-less call form against dis.stack_effect of each interpreter, pseudo-instructions included, after the PyPy tables of the same versions have been queried (hostile call order)",
            "Every opcode of 3.6-3.13 x a dense operand grid (0..300, powers of two +-1, samples; thorough 0..65536) equals dis.stack_effect wherever CPython accepts the pair; 2.x has no reference.", "7/C15"),
    "C14": ("exploration", "differential runtime monitoring of xdis.marsh against the host's built-in marshal on seeded plain values, with structural shrinking of failing values, nesting chains to 1500 levels and multi-value streams",
            "Held on the generated values only (every host 3.8-3.13, every value kind the statement names, both directions and the file-object API); NaNs are compared as 'is a NaN'.", "7/C14"),
    "C16": ("exploration", "runtime monitoring of native->portable->native round trips on each host with a snapshot/postcondition contract on the real replace()",
            "Every code object of the sampled stdlib files and generated programs on each host converts to the host's portable type and back with all attributes, co_lines() and co_positions() equal; replace() leaves the original unchanged.", "7/C16"),
    "C20": ("exploration", "differential runtime monitoring of xdis.std against the host's dis on live objects + cross-host comparison of make_std_api(V) with the native default API",
            "Same-named xdis.std functions return dis's data for the sampled functions/methods/generators/coroutines/code/source strings on each host; CACHE pseudo-instructions and 3.13's label-based is_jump_target on exception-range bounds are documented non-demands.", "7/C20"),
    "C12": ("exploration", "runtime monitoring of disassemble_file over corpus + fresh files x 6 formats: exception boundary monitor, fd-level stdout/stderr capture, strict listing grammar checked against the Bytecode instruction stream, pydisasm process observer; on every host 3.8-3.13",
            "Held on the observed files only; the listing oracle is the self-consistency the statement defines (rows = non-CACHE instruction stream, '>>' <=> is_jump_target, line column <=> starts_line for bytecode >= 2.3).", "7/C12"),
    "C07": ("exploration", "multi-host consensus monitoring: canonical tree / instruction stream / masked listing digests of the same file on six hosts and across loader paths must be identical",
            "Held on the observed files (corpus + fresh files of every host version) on hosts 3.8-3.13; hosts older than 3.8 cannot import this branch in the sandbox.", "7/C07"),
    "C11": ("fault_enumeration", "fault enumeration (prefixes, byte mutations, inserts/deletes, foreign magics, adversarial marshal streams) through load_module under process observers: outcome class, sys.monitoring step budget, tracemalloc peak, audit hooks, scratch-dir listing, CPU-time scaling monitor",
            "Every enumerated corruption of the seed files ends in a 7-tuple or ImportError within linear step/memory budgets with no exec/compile/import/write event; quick enumerates ~60k cases, thorough about twenty times as many (first 2048 prefixes and byte positions of ~270 seed files); both call forms (full and header-only).", "7/C11"),
    "C06": ("exploration", "differential runtime monitoring of load_module's header fields against real headers written by each interpreter (CPython's own _classify_pyc as oracle for 3.7+) and synthetic headers for every release magic x flag word x random field values",
            "Every observed header decodes to exactly the fields its format stores, and the code object is the one right after the header; flag words CPython itself rejects are not judged.", "7/C06"),
    "C10": ("exploration", "differential runtime monitoring of xdis's unmarshaller on hand-synthesised marshal streams (every encoding form, FLAG_REF/back-reference patterns) against the reference interpreter's own marshal.loads (format-equivalent interpreter for 2.5/2.6 and 3.0-3.5)",
            "Held on the accepted synthesised streams of each reference version (2.7, 3.6-3.13, and 2.5/2.6/3.0-3.5 judged by the interpreter with the identical format); the synthesiser is untrusted and streams a reference rejects are discarded; text-format NaN is not generated for Python 2.", "7/C10"),
    "C19": ("translation_validation", "per-output validation of freeze(): each encoded line table is decoded by xdis's own line-start routine and by the matching CPython (which installs the bytes in a code object) and compared with the input mapping",
            "Every encoder output produced in the run is validated against its input by two independent decoders; no claim about the encoders beyond the mappings generated (all offset-gap / line-gap classes of the statement).", "7/C19"),
    "C13": ("translation_validation", "per-output validation of write_bytecode_file: the target interpreter loads each written file (canonical equality with the original), xdis re-reads it, and the target executes original, rewritten file and its own marshal round trip of the original (determinism-screened) and the behaviours are compared; corpus files of versions without interpreter must be read back by xdis as the same tree",
            "Each written file is validated individually by its own target interpreter (2.7, 3.6-3.13); a writer raise counts as refused; NaN constants compare as 'is a NaN'. No claim about files the generators did not produce.", "7/C13"),
    "C18": ("exploration", "history monitoring against a fresh-process model (forked child per history) + invariant monitor: SHA-1 state digests of every module-level table before/after each public operation; seeded random histories plus fixed pair histories (neighbouring versions, different Python 2 payloads, equal-but-different constants, failed loads)",
            "Probe results after seeded histories equal the same probe in a fresh process, repeats are stable and no tracked table changes, on the histories generated (explicit opcode remapping excluded).", "7/C18"),
}

PENDING = {}


def main():
    props = [json.loads(l) for l in open(os.path.join(ROOT, "properties.jsonl"))]
    ids = [p["id"] for p in props]
    checks = []
    for pid in ids:
        if pid not in CHECKS:
            continue
        level, technique, text, ref = CHECKS[pid]
        checks.append({
            "property_id": pid,
            "quick_cmd": "./check %s --tier quick" % pid,
            "thorough_cmd": "./check %s --tier thorough" % pid,
            "evidence_file": "/verif/evidence/%s.json" % pid,
            "replay_cmd_template": "./check %s --replay {path}" % pid,
            "engine": "xdis-runtime-monitors",
            "level_claimed": {"category": level, "text": text, "design_ref": "DESIGN.md s" + ref},
            "level_note": TB,
            "technique": technique,
        })
    na = []
    for pid in ids:
        if pid not in CHECKS:
            na.append({"property_id": pid, "reason": PENDING.get(pid, "check not built yet in this session (runtime-monitoring check planned, see DESIGN.md s7); not claimed until it runs clean on the unchanged tree")})
    man = {
        "version": 1,
        "setup_cmd": "./setup.sh",
        "hooks": {
            "guard": "XDIS_VERIF",
            "enable": "no source hooks: every monitor is installed from the harness (function wrapping / icontract, sys.monitoring, sys.addaudithook, fd capture); checks import xdis from /repo's working tree (VERIF_REPO overrides for seeded-fault validation)",
            "baseline_off_cmd": "cd /repo && /venv/bin/python -m pytest -ra -q -p no:cacheprovider --timeout=900 --continue-on-collection-errors",
            "source_commits": [],
            "add_only": True,
        },
        "engines": [{
            "name": "xdis-runtime-monitors",
            "path": "/verif/vf",
            "serves_properties": [c["property_id"] for c in checks],
            "kind_free_text": "runtime monitoring: reference-interpreter differential oracles, invariant monitors on hooked functions, audit/trace hooks, state digests; seeded + corpus + exhaustive-finite workloads",
        }],
        "checks": checks,
        "not_applicable": na,
        "notes": "Exit codes: 0 held on everything observed (KNOWN-FINDING lines for entries of known_findings.json), 1 violation (VIOLATION line + replay file), 2 inconclusive (deciding monitor not reached / oracle unavailable). Repository defects repaired by 'fix:' commits are listed under 'fixed' in known_findings.json.",
    }
    with open(os.path.join(ROOT, "MANIFEST.json"), "w") as f:
        json.dump(man, f, indent=1)
    try:
        subprocess.run(["python3-vt", "-c", "import json,jsonschema,sys; jsonschema.validate(json.load(open('%s/MANIFEST.json')), json.load(open('/root/.vp/MANIFEST.schema.json'))); print('MANIFEST valid')" % ROOT], check=True)
    except Exception as e:
        print("validation failed", e)


if __name__ == "__main__":
    main()
