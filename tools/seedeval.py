#!/usr/bin/env python3
"""Evaluate one seeded defect produced by an independent sub-agent.

  tools/seedeval.py <Cxx> <N> [--checks C01,C02] [--tier quick]

The change lives in the scratch worktree /tmp/wt-<Cxx> as change<N>.diff with demo<N>.py.
Steps: confirm the demo passes on the clean worktree; apply the diff; confirm the repository's own
test suite still has its 39 stable passes; confirm the demo now fails; run the named checks against the
patched worktree (VERIF_REPO) and record which fire; restore the worktree; restore evidence files.
Writes /verif/seeded/<Cxx>-<N>/{patch.diff, demo.py, meta.json}.
"""
import argparse
import json
import os
import re
import shutil
import subprocess
import sys
import time

VERIF = os.path.dirname(os.path.dirname(os.path.abspath(__file__)))
BASE = json.load(open("/root/.vp/BASELINE.json"))
STABLE = set(BASE["stable_pass"])


def sh(cmd, cwd=None, env=None, timeout=3600):
    p = subprocess.run(cmd, cwd=cwd, env=env, shell=isinstance(cmd, str), stdout=subprocess.PIPE, stderr=subprocess.STDOUT, timeout=timeout)
    return p.returncode, p.stdout.decode("utf-8", "replace")


def run_tests(wt):
    junit = os.path.join(wt, ".seedeval-junit.xml")
    rc, out = sh("/venv/bin/python -m pytest -ra -q -p no:cacheprovider --timeout=900 --continue-on-collection-errors --junitxml=%s" % junit, cwd=wt)
    passed = set()
    try:
        import xml.etree.ElementTree as ET

        for tc in ET.parse(junit).getroot().iter("testcase"):
            if not list(tc):
                cn = tc.get("classname", "")
                passed.add(cn + "::" + tc.get("name"))
        os.unlink(junit)
    except Exception as e:
        return None, out[-500:]
    # baseline ids look like "pytest.test_bytecode::test_find_linestarts"
    missing = sorted(s for s in STABLE if s not in passed)
    return missing, out.strip().split("\n")[-1]


def main():
    ap = argparse.ArgumentParser()
    ap.add_argument("prop")
    ap.add_argument("n")
    ap.add_argument("--checks", default=None)
    ap.add_argument("--tier", default="quick")
    ap.add_argument("--seed", default="0")
    ap.add_argument("--wt", default=None, help="worktree holding changeN.diff / demoN.py (default /tmp/wt-<Cxx>)")
    ap.add_argument("--as-id", default=None, help="number to record the change under in seeded/ (default N)")
    ap.add_argument("--from-seeded", action="store_true",
                    help="re-evaluate seeded/<Cxx>-<N>: a scratch worktree of /repo HEAD is made under /var/tmp, used and removed")
    a = ap.parse_args()
    made_wt = None
    if a.from_seeded:
        sd = os.path.join(VERIF, "seeded", "%s-%s" % (a.prop, a.n))
        wt = made_wt = "/var/tmp/seedwt-%s-%s-%d" % (a.prop, a.n, os.getpid())
        rc, out = sh(["git", "-C", "/repo", "worktree", "add", "-q", "--detach", wt, "HEAD"])
        if rc != 0:
            print("cannot create worktree:", out[-300:])
            return 2
        shutil.copyfile(os.path.join(sd, "patch.diff"), os.path.join(wt, "change%s.diff" % a.n))
        shutil.copyfile(os.path.join(sd, "demo.py"), os.path.join(wt, "demo%s.py" % a.n))
    else:
        wt = a.wt or "/tmp/wt-%s" % a.prop
    try:
        return evaluate(a, wt)
    finally:
        if made_wt:
            sh(["git", "-C", "/repo", "worktree", "remove", "--force", made_wt])
            shutil.rmtree(made_wt, ignore_errors=True)


def evaluate(a, wt):
    diff = os.path.join(wt, "change%s.diff" % a.n)
    demo = os.path.join(wt, "demo%s.py" % a.n)
    checks = (a.checks or a.prop).split(",")
    rec_id = a.as_id or a.n
    meta = {"property": a.prop, "change": rec_id, "worktree": "scratch worktree of /repo HEAD" if a.from_seeded else wt, "checks_run": checks, "tier": a.tier, "when": time.strftime("%Y-%m-%d %H:%M:%S")}
    sh("git checkout -- xdis", cwd=wt)
    rc0, out0 = sh("/venv/bin/python %s" % os.path.basename(demo), cwd=wt, timeout=1200)
    meta["demo_without_change_rc"] = rc0
    rc, out = sh("git apply %s" % diff, cwd=wt)
    if rc != 0:
        # the tree has moved on since the change was written (later fix: commits): let patch(1) place the hunks
        sh("git checkout -- xdis", cwd=wt)
        rc, out = sh("patch -p1 -F3 --no-backup-if-mismatch -i %s" % diff, cwd=wt)
        meta["applied_with"] = "patch -F3"
    if rc != 0:
        meta["error"] = "patch does not apply: " + out[-300:]
        print(json.dumps(meta, indent=1))
        return 2
    try:
        missing, tail = run_tests(wt)
        meta["tests_tail"] = tail
        meta["stable_tests_now_failing"] = missing
        rc1, out1 = sh("/venv/bin/python %s" % os.path.basename(demo), cwd=wt, timeout=1200)
        meta["demo_with_change_rc"] = rc1
        meta["demo_with_change_tail"] = out1.strip()[-400:]
        valid = (rc0 == 0 and rc1 != 0 and missing == [])
        meta["valid_seeded_defect"] = valid
        # run checks against the patched worktree, keeping the real evidence files safe
        side = "/var/tmp/seedeval-%d" % os.getpid()
        os.makedirs(side, exist_ok=True)
        results = {}
        env = dict(os.environ, VERIF_REPO=wt, VERIF_SEED=a.seed, VERIF_EVIDENCE_DIR=os.path.join(side, "evidence"),
                   VERIF_REPLAY_DIR=os.path.join(side, "replays"))
        for c in checks:
            t = time.time()
            rcc, outc = sh(["./check", c, "--tier", a.tier], cwd=VERIF, env=env, timeout=7200)
            viol = [l for l in outc.split("\n") if l.startswith("VIOLATION")]
            keys = [l.strip()[:220] for l in outc.split("\n") if l.strip().startswith("key=")]
            results[c] = {"exit": rcc, "violations": len(viol), "first_keys": keys[:4], "wall_s": round(time.time() - t, 1),
                          "summary": [l for l in outc.split("\n") if l.startswith(c + " tier")][:1]}
        shutil.rmtree(side, ignore_errors=True)
        meta["check_results"] = results
        meta["caught_by"] = sorted(c for c, r in results.items() if r["exit"] == 1)
    finally:
        sh("git checkout -- xdis", cwd=wt)
    out_dir = os.path.join(VERIF, "seeded", "%s-%s" % (a.prop, rec_id))
    os.makedirs(out_dir, exist_ok=True)
    if not a.from_seeded:
        shutil.copyfile(diff, os.path.join(out_dir, "patch.diff"))
        shutil.copyfile(demo, os.path.join(out_dir, "demo.py"))
    sm = os.path.join(wt, "SEEDED.md")
    if os.path.exists(sm):
        shutil.copyfile(sm, os.path.join(out_dir, "AGENT-NOTES.md"))
    with open(os.path.join(out_dir, "meta.json"), "w") as f:
        json.dump(meta, f, indent=1)
    print(json.dumps({k: meta[k] for k in ("property", "change", "valid_seeded_defect", "caught_by", "stable_tests_now_failing",
                                           "demo_without_change_rc", "demo_with_change_rc")}, indent=None))
    for c, r in meta["check_results"].items():
        print("  ", c, "exit", r["exit"], "violations", r["violations"], r["first_keys"][:2])
    return 0


if __name__ == "__main__":
    sys.exit(main())
