#!/usr/bin/env python3
"""Summarise replay files of a property: keys collapsed, one witness each (bounded output)."""
import glob, json, re, sys, collections
prop = sys.argv[1]
width = int(sys.argv[2]) if len(sys.argv) > 2 else 220
agg = collections.OrderedDict()
for f in sorted(glob.glob('/verif/replays/%s-*-*.json' % prop)):
    d = json.load(open(f))
    k = re.sub(r"\|v[0-9.a-z]+$", "|v*", d['key'])
    k = re.sub(r"\|h3\.\d+", "|h*", k)
    a = agg.setdefault(k, [0, set(), None])
    a[0] += d['count']; a[1].add(d['key']); a[2] = a[2] or d['witnesses'][0]['detail']
for k, (n, keys, w) in agg.items():
    print(("%s  n=%d variants=%d :: %s" % (k, n, len(keys), json.dumps(w)))[:width])
print(len(agg), "collapsed keys")
