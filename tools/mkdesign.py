#!/usr/bin/env python3
"""Regenerate sections 12-14 of DESIGN.md (between the GENERATED markers) from known_findings.json,
seeded/*/meta.json and tools/design_notes.md."""
import glob
import json
import os
import re

ROOT = os.path.dirname(os.path.dirname(os.path.abspath(__file__)))


def main():
    k = json.load(open(os.path.join(ROOT, "known_findings.json")))
    out = []
    out.append("## 12. What the monitors found\n")
    out.append("### 12.1 Genuine defects repaired in `/repo` (one unguarded `fix:` commit each)\n")
    out.append("Every entry was first observed by a check on the then-current tree (witness in the replay file), reproduced against\n"
               "the real code, repaired with a minimal patch, and the repository's own suite re-run (39 stable passes each time).\n"
               "`fixed` entries suppress nothing: the check passes on the repaired tree and reports the violation again if it returns.\n")
    out.append("| property | commit | what failed |")
    out.append("|---|---|---|")
    for e in k["fixed"]:
        m = re.match(r"fixed: property=(C\d+) (\S+) (.*)$", e)
        out.append("| %s | `%s` | %s |" % (m.group(1), m.group(2), m.group(3).replace("|", "\\|")))
    out.append("")
    out.append("### 12.2 Known findings (genuine, recorded rather than repaired)\n")
    out.append("Listed in `known_findings.json` by mechanism key; a run prints `KNOWN-FINDING: property=<id> ...` and exits 0; a mismatch\n"
               "with any other key is a VIOLATION.\n")
    out.append("| id | property | key(s) | why recorded, not repaired |")
    out.append("|---|---|---|---|")
    for e in k["known"]:
        keys = e["key"] if isinstance(e["key"], list) else [e["key"]]
        out.append("| %s | %s | %s | %s |" % (e["id"], e["property"], "<br>".join("`%s`" % x.replace("|", "\\|") for x in keys),
                                          e["what"].replace("|", "\\|")))
    out.append("")
    notes = open(os.path.join(ROOT, "tools", "design_notes.md")).read()
    out.append(notes)
    out.append("## 14. Seeded defects from independent sub-agents\n")
    out.append("Each row is one change produced by a sub-agent that saw only the property text (section 9).  *valid* = demonstration passes\n"
               "without / fails with the change and the 39 stable tests still pass.  *caught by* = quick checks that exit 1 on the\n"
               "patched worktree (final evaluation; `seeded/<id>/meta.json` has the keys that fired).\n")
    out.append("| seeded change | breaks | what it needs to manifest | valid | caught by (quick tier) |")
    out.append("|---|---|---|---|---|")
    needs = {}
    try:
        needs = json.load(open(os.path.join(ROOT, "seeded", "needs.json")))
    except Exception:
        pass
    for f in sorted(glob.glob(os.path.join(ROOT, "seeded", "*", "meta.json"))):
        m = json.load(open(f))
        sid = "%s-%s" % (m["property"], m["change"])
        out.append("| `seeded/%s` | %s | %s | %s | %s |" % (sid, m["property"], needs.get(sid, "see AGENT-NOTES.md"),
                                                     "yes" if m.get("valid_seeded_defect") else "NO",
                                                     ", ".join(m.get("caught_by") or []) or "**missed**"))
    out.append("")
    p = os.path.join(ROOT, "DESIGN.md")
    s = open(p).read()
    a = s.index("<!-- GENERATED:BEGIN -->") + len("<!-- GENERATED:BEGIN -->")
    b = s.index("<!-- GENERATED:END -->")
    s = s[:a] + "\n" + "\n".join(out) + "\n" + s[b:]
    open(p, "w").write(s)
    print("DESIGN.md sections 12-14 regenerated")


if __name__ == "__main__":
    main()
