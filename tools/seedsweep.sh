#!/bin/bash
# Re-evaluate every kept seeded defect (or those named on the command line) against the current checks and the
# current /repo HEAD.  Each one gets its own scratch worktree under /var/tmp, removed when done (seedeval --from-seeded).
#   tools/seedsweep.sh [-j N] [C01-2 C07-1 ...]
cd "$(dirname "$0")/.."
J=1
if [ "$1" = "-j" ]; then J=$2; shift 2; fi
ids="$@"
[ -n "$ids" ] || ids=$(ls -d seeded/C*-*/ | xargs -n1 basename)
one() {
  id=$1; p=${id%-*}; n=${id#*-}
  extra=""
  case $id in C01-2) extra="--checks C01,C10";; C07-1) extra="--checks C07,C01,C10";; C07-2) extra="--checks C07,C05";; C12-4) extra="--checks C12,C03";; C04-5) extra="--checks C04,C18";; C01-6) extra="--checks C01,C06";; C12-7) extra="--checks C12,C04";; C12-8) extra="--checks C12,C05";; C17-8) extra="--checks C17,C16";; C02-9) extra="--checks C02,C18";; esac
  python3 tools/seedeval.py $p $n --from-seeded $extra 2>&1 | grep '^{"property"' | cut -c1-200 | sed "s/^/$id /"
}
export -f one
echo $ids | tr ' ' '\n' | xargs -P $J -I{} bash -c 'one {}'
