#!/bin/bash
# Re-evaluate every kept seeded defect against the current checks (scratch worktrees /tmp/wt-Cxx must exist).
cd "$(dirname "$0")/.."
HEAD=$(git -C /repo rev-parse HEAD)
for d in seeded/C*-*/; do
  id=$(basename $d); p=${id%-*}; n=${id#*-}
  wt=/tmp/wt-$p
  [ -d $wt ] || git -C /repo worktree add -q --detach $wt $HEAD
  git -C $wt checkout -q -- xdis 2>/dev/null; git -C $wt checkout -q --detach $HEAD
  cp $d/patch.diff $wt/change$n.diff; cp $d/demo.py $wt/demo$n.py
  extra=""
  case $id in C01-2) extra="--checks C01,C10";; C07-1) extra="--checks C07,C01,C10";; C07-2) extra="--checks C07,C05";; esac
  python3 tools/seedeval.py $p $n $extra 2>&1 | tail -1 | cut -c1-200 | sed "s/^/$id /"
done
