#!/usr/bin/env python3
"""Write the brief for an independent seeding sub-agent.

  tools/mkseedprompt.py <Cxx> <round> <worktree> > prompt.txt

The brief holds only the text of the property (from properties.jsonl), the location of the agent's own scratch worktree and,
from round 2 on, a one-line description of what each earlier seeded defect for that property needs in order to manifest
(seeded/needs.json) so that the new ones differ in mechanism and site.  Nothing about the checks in /verif goes in.
"""
import json
import os
import sys

VERIF = os.path.dirname(os.path.dirname(os.path.abspath(__file__)))


def main():
    pid, rnd, wt = sys.argv[1], int(sys.argv[2]), sys.argv[3]
    prop = None
    for line in open(os.path.join(VERIF, "properties.jsonl")):
        d = json.loads(line)
        if d["id"] == pid:
            prop = d
    needs = json.load(open(os.path.join(VERIF, "seeded", "needs.json")))
    earlier = [(k, v) for k, v in sorted(needs.items()) if k.startswith(pid + "-")]
    anchors = prop["anchors"]
    if isinstance(anchors, dict):
        anchors = ", ".join(anchors.get("files", [])) or str(anchors)
    elif isinstance(anchors, list):
        anchors = ", ".join(a if isinstance(a, str) else a.get("path", str(a)) for a in anchors)
    quant = prop.get("quantifier")
    if isinstance(quant, dict):
        quant = quant.get("text", str(quant))
    out = []
    w = out.append
    w("You are helping to evaluate a verification harness by producing *seeded defects* for the open-source library rocky/python-xdis")
    w("(cross-version Python bytecode library: unmarshaller, magic tables, opcode tables, disassembler).")
    w("")
    w("Your scratch copy is the git worktree %s (HEAD is the current, supposedly correct, code). Work ONLY inside %s." % (wt, wt))
    w("Do not read or use anything under /verif or /repo. You may use the interpreters in /root/.pyenv/versions/*/bin/python")
    w("(2.7.18, 3.6.15, 3.7.16, 3.8.18, 3.9.18, 3.10.13, 3.11.7, 3.12.1, 3.13.0) and /venv/bin/python (3.12, has pytest, click) to build inputs and to")
    w("demonstrate behaviour. To run code against your worktree, run it with the working directory set to %s (or PYTHONPATH=%s); hosts 3.8-3.13 can import xdis." % (wt, wt))
    w("There is no network. Put temporary files inside your worktree (not loose in /tmp) and delete them when done.")
    w("Never use `git stash` (the stash is shared between worktrees): save diffs with `git diff > file` and undo with `git apply -R file` or `git checkout -- xdis`.")
    w("")
    w("The property to break (read it carefully; this text is all you get about it):")
    w("")
    w("Property %s: %s" % (pid, prop["title"]))
    w("")
    w("Statement: " + prop["statement"])
    w("")
    w("Quantified over: " + str(quant))
    w("")
    w("Why the existing tests cannot settle it: " + str(prop.get("why_tests_cant")))
    w("")
    w("Code it is anchored in: " + str(anchors))
    w("")
    if earlier and rnd > 1:
        w("")
        w("Earlier rounds already produced these seeded defects for this property (described by what they need in order to manifest):")
        for k, v in earlier:
            w("  - " + v)
        w("Produce changes that differ from ALL of those in mechanism and in the code site they touch (other functions, other versions, other input")
        w("classes, other entry points of the public API, other hosts). Read the property statement again clause by clause and look for a clause,")
        w("a quantifier dimension (version, host, input class, entry point, call order) or a code path that none of the earlier defects touches.")
        w("")
    if rnd >= 4:
        w("This is a late round: the obvious sites have been used. Good places to look now: helper modules outside the anchored files that the")
        w("anchored code calls (xdis/util.py, xdis/version_info.py, xdis/opcodes/base.py and format/*.py, xdis/codetype/*.py, xdis/magics.py,")
        w("xdis/op_imports.py, xdis/lineoffsets.py, xdis/namedtuple24.py ...), behaviour that depends on the HOST interpreter version (3.8 vs 3.13),")
        w("state kept between calls, rarely used but public entry points and keyword arguments, and inputs at representation boundaries")
        w("(empty tables, exactly-at-limit sizes, negative values, non-ASCII names).")
        w("")
    w("Task: produce TWO independent, realistic changes to the library source (files under %s/xdis/ only) each of which makes the library VIOLATE" % wt)
    w("this property, while")
    w("  (a) the package still imports on Python 3.8-3.13, and")
    w("  (b) the existing test suite still passes exactly as before. Check with:")
    w("        cd %s && /venv/bin/python -m pytest -ra -q -p no:cacheprovider --timeout=900 --continue-on-collection-errors 2>&1 | tail -15" % wt)
    w("      On the unchanged tree this gives \"7 failed, 39 passed, 1 skipped, 1 error\" (those failures are pre-existing). With your change the same")
    w("      39 tests must still pass and no additional test may fail.")
    w("Make the changes the kind of slip a maintainer could plausibly make (a wrong boundary, a dropped special case, a stale cache, a swapped table row, an")
    w("off-by-one, a refactoring that is almost equivalent, two sites that each look fine alone ...), NOT sabotage that ordinary use exposes at once. Prefer")
    w("changes that need something specific to manifest: an unusual input, a particular bytecode version or host version, a large operand, a multi-step")
    w("sequence of calls, a rare encoding, or two cooperating sites. Do not break everything; keep each change small (a few lines).")
    w("")
    w("For each change N in (1, 2):")
    w("  1. Make the change in the working tree, run the test suite as above and confirm the result is unchanged.")
    w("  2. Write a demonstration %s/demoN.py: a self-contained script, run as `cd %s && /venv/bin/python demoN.py` (it may itself spawn other" % (wt, wt))
    w("     interpreters), that exits with status 1 and prints what went wrong when the change is present, and exits 0 on the unchanged code.")
    w("     Verify both: run it with the change (must fail), un-apply the change with `git apply -R` of a saved diff, run it again (must pass), re-apply.")
    w("  3. Save the change as %s/changeN.diff with `git -C %s diff -- xdis > %s/changeN.diff`, then restore the tree with `git -C %s checkout -- xdis`" % (wt, wt, wt, wt))
    w("     before starting the next change.")
    w("Finally write %s/SEEDED.md: for each change: what was changed and where, why it violates the property, exactly what it needs in order to" % wt)
    w("manifest (input / version / host / sequence), and the commands you ran with their observed results (test-suite tail, demo with and without the change).")
    w("If while working you notice behaviour of the UNCHANGED code that already violates the property, add a section 'Pre-existing' to SEEDED.md describing")
    w("the input and what happens (do not fix it).")
    w("Leave the worktree with the source restored (no modifications under xdis/), and the files change1.diff, change2.diff, demo1.py, demo2.py, SEEDED.md present.")
    w("Report briefly what you produced.")
    print("\n".join(out))


if __name__ == "__main__":
    main()
