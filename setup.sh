#!/bin/bash
# MANIFEST.setup_cmd: offline install of the contract library beside the checks.
cd "$(dirname "$0")"
mkdir -p .deps evidence replays .scratch
if [ ! -d .deps/icontract ]; then
  PIP_NO_INDEX=1 /venv/bin/pip install --quiet --no-index --find-links /opt/veriftools/wheels \
      --target .deps icontract 2>&1 | tail -2
fi
/venv/bin/python -c "import sys; sys.path.insert(0,'.deps'); import icontract; print('icontract', icontract.__version__)"
exit 0
