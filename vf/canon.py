"""Host-side (3.8+) twin of the canonical form in oracle/truth.py.

`canon(v, bc_version)` maps a value produced by xdis for bytecode version
`bc_version` (a tuple) to the same kind-tagged JSON form that truth.py produces
inside the reference interpreter.  Wrapper classes are mapped to the kind they
stand for (DESIGN.md s6); nothing else is normalised.
"""
import binascii
import hashlib
import json
import struct

HASH_LIMIT = 400


def hexs(b):
    return binascii.hexlify(bytes(b)).decode("ascii")


def ihex(n):
    """Ints travel as signed hexadecimal text (twin of truth.py): decimal conversion of huge ints is refused by 3.11+."""
    return ("-%x" % -n) if n < 0 else ("%x" % n)


def fbits(x):
    return hexs(struct.pack(">d", x))


def canon_text(s):
    for ch in s:
        o = ord(ch)
        if o < 0x20 or o > 0x7E:
            return ["U", [ord(c) for c in s]]
    return ["u", s]


def sort_key(c):
    return json.dumps(c, sort_keys=True)


def is_code(v):
    return hasattr(v, "co_code") and hasattr(v, "co_consts")


def canon(v, bc_version=(3, 8), code_mode="full", fields=None):
    py2 = bc_version < (3, 0)
    if v is None:
        return ["N"]
    if v is True:
        return ["b", 1]
    if v is False:
        return ["b", 0]
    if v is Ellipsis:
        return ["E"]
    if v is StopIteration:
        return ["S"]
    t = type(v)
    tn = t.__name__
    if tn == "LongTypeForPython3":
        # xdis's stand-in for the Python 2 `long` kind
        return ["l" if py2 else "i", ihex(int(v))]
    if tn == "UnicodeForPython3":
        # xdis's stand-in for the Python 2 `unicode` kind; wraps UTF-8 bytes
        raw = v.value
        if isinstance(raw, bytes):
            try:
                return canon_text(raw.decode("utf-8", "surrogatepass"))
            except UnicodeDecodeError:
                return ["?", "undecodable-unicode", hexs(raw)]
        return canon_text(str(raw))
    if isinstance(v, int):
        return ["i", ihex(int(v))]
    if t is float:
        return ["f", fbits(v)]
    if t is complex:
        return ["c", fbits(v.real), fbits(v.imag)]
    if t is bytes:
        return ["s" if py2 else "B", hexs(v)]
    if t is str:
        if py2:
            # Python 2 `str` constants are shown by xdis as text when they
            # happen to be UTF-8; the kind is still the byte string kind.
            return ["s", hexs(v.encode("utf-8", "surrogatepass"))]
        return canon_text(v)
    if t is tuple:
        return ["t", [canon(x, bc_version, code_mode) for x in v]]
    if t is list:
        return ["L", [canon(x, bc_version, code_mode) for x in v]]
    if t is frozenset:
        return ["F", sorted([canon(x, bc_version, code_mode) for x in v], key=sort_key)]
    if t is set:
        return ["Z", sorted([canon(x, bc_version, code_mode) for x in v], key=sort_key)]
    if t is dict:
        return [
            "D",
            sorted(
                [[canon(k, bc_version, code_mode), canon(x, bc_version, code_mode)] for k, x in v.items()],
                key=sort_key,
            ),
        ]
    if is_code(v):
        if code_mode == "ref":
            return ["C", canon(v.co_name, bc_version, "ref"), getattr(v, "co_firstlineno", None)]
        return ["C", canon_code(v, bc_version, "full")]
    return ["?", tn]


def short(c):
    s = json.dumps(c, sort_keys=True)
    if len(s) > HASH_LIMIT:
        return ["#", hashlib.sha1(s.encode("utf-8")).hexdigest()]
    return c


def code_fields(v):
    f = ["co_argcount"]
    if v >= (3, 8):
        f.append("co_posonlyargcount")
    if v >= (3, 0):
        f.append("co_kwonlyargcount")
    f += [
        "co_nlocals", "co_stacksize", "co_flags", "co_code", "co_consts",
        "co_names", "co_varnames", "co_freevars", "co_cellvars",
        "co_filename", "co_name",
    ]
    if v >= (3, 11):
        f.append("co_qualname")
    f.append("co_firstlineno")
    f.append("co_linetable" if v >= (3, 10) else "co_lnotab")
    if v >= (3, 11):
        f.append("co_exceptiontable")
    return f


class Missing:
    pass


def get_field(co, f):
    """Fetch a field from a portable or native code object.  Portable 3.10+
    types store the line table under co_linetable; older ones under co_lnotab."""
    if hasattr(co, f):
        return getattr(co, f)
    return Missing


def canon_code(co, bc_version, code_mode="full"):
    d = {}
    for f in code_fields(bc_version[:2]):
        v = get_field(co, f)
        if v is Missing:
            d[f] = ["?", "missing"]
        else:
            d[f] = canon(v, bc_version, code_mode)
    return d


def walk_code(co, path="0"):
    yield path, co
    for i, c in enumerate(co.co_consts):
        if is_code(c):
            for x in walk_code(c, path + "." + str(i)):
                yield x


def kind_of(c):
    return c[0] if isinstance(c, list) and c else "?"


def first_diff(a, b, where=""):
    """Locate the first structural difference between two canonical values.
    Returns (where, a_part, b_part) or None."""
    if a == b:
        return None
    if not (isinstance(a, list) and isinstance(b, list) and a and b):
        return where, a, b
    if a[0] != b[0]:
        return where, a, b
    k = a[0]
    if k in ("t", "L", "F", "Z"):
        xa, xb = a[1], b[1]
        if len(xa) != len(xb):
            return where + "/len", len(xa), len(xb)
        for i, (p, q) in enumerate(zip(xa, xb)):
            d = first_diff(p, q, where + "/" + str(i))
            if d:
                return d
    if k == "D":
        xa, xb = a[1], b[1]
        if len(xa) != len(xb):
            return where + "/len", len(xa), len(xb)
        for i, (p, q) in enumerate(zip(xa, xb)):
            d = first_diff(p[0], q[0], where + "/k" + str(i)) or first_diff(p[1], q[1], where + "/v" + str(i))
            if d:
                return d
    if k == "C" and isinstance(a[1], dict) and isinstance(b[1], dict):
        for f in sorted(set(a[1]) | set(b[1])):
            d = first_diff(a[1].get(f), b[1].get(f), where + "/" + f)
            if d:
                return d
    return where, a, b


def nan_norm(c):
    """Replace every NaN by one canonical NaN (used only by the writer-side
    properties C13/C14, whose statements ask for *equal* values: NaNs have no
    equality, so "is a NaN" is all that can be demanded there)."""
    if isinstance(c, list):
        if len(c) == 2 and c[0] == "f" and isinstance(c[1], str) and len(c[1]) == 16:
            bits = int(c[1], 16)
            if (bits & 0x7FF0000000000000) == 0x7FF0000000000000 and (bits & 0x000FFFFFFFFFFFFF):
                return ["f", "nan"]
            return c
        if len(c) == 3 and c[0] == "c" and isinstance(c[1], str):
            return ["c", nan_norm(["f", c[1]])[1], nan_norm(["f", c[2]])[1]]
        out = [nan_norm(x) for x in c]
        if c and c[0] in ("F", "Z", "D") and len(out) == 2 and isinstance(out[1], list):
            out[1] = sorted(out[1], key=sort_key)
        return out
    if isinstance(c, dict):
        return dict((k, nan_norm(x)) for k, x in c.items())
    return c
