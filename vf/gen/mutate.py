"""Hostile .pyc generator (workload M): prefixes, byte mutations, insert/delete,
non-bytecode files and targeted adversarial marshal streams.  Every case is
(class_label, bytes).  Pure stdlib, runs on every host (3.8+)."""
import struct


def header_len_for(data):
    """Best-effort header length of a valid seed (by magic)."""
    if len(data) < 4:
        return 8
    magic = struct.unpack("<H", data[:2])[0]
    if 3390 <= magic < 20000 or magic in (3379 + 100000,):
        return 16
    if 3200 <= magic < 3390:
        return 12
    return 8


def prefixes(data, rng, limit):
    n = len(data)
    if n <= limit:
        lens = list(range(0, n))
    else:
        lens = sorted(set(list(range(0, 80)) + [rng.randrange(n) for _ in range(limit - 80)]))
    for k in lens:
        yield "prefix", data[:k]


def byte_mutations(data, rng, positions):
    n = len(data)
    for pos in positions:
        b = data[pos]
        for label, nb in (("byte:00", 0), ("byte:ff", 0xFF), ("byte:flip80", b ^ 0x80), ("byte:+1", (b + 1) & 0xFF),
                          ("byte:-1", (b - 1) & 0xFF), ("byte:rand", rng.randrange(256))):
            if nb == b:
                continue
            yield label, data[:pos] + bytes([nb]) + data[pos + 1:]


def insert_delete(data, rng, count):
    n = len(data)
    for _ in range(count):
        pos = rng.randrange(n + 1)
        k = rng.randrange(1, 9)
        if rng.random() < 0.5:
            yield "insert", data[:pos] + bytes(rng.randrange(256) for _ in range(k)) + data[pos:]
        else:
            yield "delete", data[:pos] + data[pos + k:]


def non_bytecode(rng):
    yield "nonbytecode:empty", b""
    for n in (1, 3, 4, 8, 49, 50, 51, 64):
        yield "nonbytecode:zeros%d" % n, b"\0" * n
        yield "nonbytecode:random%d" % n, bytes(rng.randrange(256) for _ in range(n))
    yield "nonbytecode:text", b"#!/usr/bin/env python\nprint('hello world')\n" * 4
    yield "nonbytecode:text-import", b"import os\nos.system('touch /tmp/PWNED-xdis')\n" + b"#" * 60
    for magic in (62135, 62215, 2657, 22138, 1011, 21150, 21280, 39170, 39171, 48, 64, 112, 160, 192, 224, 240, 256, 336, 384,
                  3010, 3371, 62071, 62111, 0, 65535, 3439, 3495, 3531, 3571, 3600, 20121, 11913, 5892):
        body = bytes(rng.randrange(256) for _ in range(80))
        yield "nonbytecode:magic-%d+random" % magic, struct.pack("<H", magic) + b"\r\n" + body
        yield "nonbytecode:magic-%d+zeros" % magic, struct.pack("<H", magic) + b"\r\n" + b"\0" * 80
    yield "nonbytecode:magic-only-short", struct.pack("<H", 3413) + b"\r\n" + b"\0" * 46
    # a known magic number whose third/fourth bytes are not CR LF (every table keyed by the 4-byte string misses it)
    for magic in (3361, 3010, 3371, 62071, 62111, 62135, 62215, 3413, 62211, 3531, 20121, 1011, 48):
        for tail in (b"XX", b"\r\r", b"\n\r", b"\x00\x00", b"\xff\n"):
            yield "nonbytecode:magic-%d+non-CRLF" % magic, struct.pack("<H", magic) + tail + bytes(rng.randrange(256) for _ in range(80))


def le32(n):
    return struct.pack("<I", n & 0xFFFFFFFF)


def code_wrapper(magic_version, consts_stream, override=None):
    """A minimal well-formed code object for `magic_version` whose co_consts
    slot holds `consts_stream` (raw marshal bytes).  Layout per version.
    override: {slot name: raw marshal bytes} puts another object into the slot of a field
    (code, names, varnames, filename, name, lnotab ...): type confusion."""
    v = magic_version
    ov = override or {}
    out = b"c"
    out += le32(0)  # argcount
    if v >= (3, 8):
        out += le32(0)  # posonly
    if v >= (3, 0):
        out += le32(0)  # kwonly
    if v < (3, 11):
        out += le32(0)  # nlocals
    out += le32(1)  # stacksize
    out += le32(64)  # flags
    code = b"d\x00S\x00" if v >= (3, 6) else b"d\x00\x00S"
    out += ov.get("code", b"s" + le32(len(code)) + code)
    out += consts_stream
    out += ov.get("names", b"(" + le32(0))  # names
    if v >= (3, 11):
        out += b"(" + le32(0)  # localsplusnames
        out += b"s" + le32(0)  # localspluskinds
    else:
        out += ov.get("varnames", b"(" + le32(0))  # varnames
        out += ov.get("freevars", b"(" + le32(0))  # freevars
        out += ov.get("cellvars", b"(" + le32(0))  # cellvars
    fn = b"<hostile>"
    tcode = b"u" if v >= (3, 0) else b"s"  # names are text in Python 3, byte strings in Python 2
    out += ov.get("filename", tcode + le32(len(fn)) + fn)  # filename
    out += ov.get("name", tcode + le32(1) + b"f")  # name
    if v >= (3, 11):
        out += tcode + le32(1) + b"f"  # qualname
    out += le32(1)  # firstlineno
    out += ov.get("lnotab", b"s" + le32(0))  # lnotab / linetable
    if v >= (3, 11):
        out += b"s" + le32(0)  # exceptiontable
    return out


HEADERS = {
    (2, 7): struct.pack("<H", 62211) + b"\r\n" + le32(0),
    (3, 4): struct.pack("<H", 3310) + b"\r\n" + le32(0) + le32(0),
    (3, 8): struct.pack("<H", 3413) + b"\r\n" + le32(0) + le32(0) + le32(0),
    (3, 11): struct.pack("<H", 3495) + b"\r\n" + le32(0) + le32(0) + le32(0),
    (3, 12): struct.pack("<H", 3531) + b"\r\n" + le32(0) + le32(0) + le32(0),
    (3, 13): struct.pack("<H", 3571) + b"\r\n" + le32(0) + le32(0) + le32(0),
}


def adversarial(rng, big=False):
    """Targeted streams.  Yields (label, bytes)."""
    for v, hdr in sorted(HEADERS.items()):
        tag = "%d.%d" % v

        def wrap(consts):
            return hdr + code_wrapper(v, consts)

        # absurd lengths on every length-prefixed type code
        for code in "silxyutaAzZ([<>":
            for ln, lname in ((0x7FFFFFFF, "2^31-1"), (0xFFFFFFFF, "-1"), (0x80000000, "-2^31"), (0x00FFFFFF, "2^24-1")):
                if code in "zZ":
                    body = code.encode() + bytes([ln & 0xFF])
                elif code == ")":
                    body = b")" + bytes([0xFF])
                else:
                    body = code.encode() + le32(ln)
                yield "adversarial:length:%s:%s:v%s" % (code, lname, tag), wrap(b"(" + le32(1) + body)
                yield "adversarial:length+tail:%s:%s:v%s" % (code, lname, tag), wrap(b"(" + le32(1) + body + b"N" * 64)
        # small tuple with too few elements, float/complex with bad text
        yield "adversarial:short-small-tuple:v%s" % tag, wrap(b")" + bytes([200]) + b"N" * 5)
        yield "adversarial:bad-float-text:v%s" % tag, wrap(b"(" + le32(1) + b"f" + bytes([5]) + b"abcde")
        yield "adversarial:bad-complex-text:v%s" % tag, wrap(b"(" + le32(1) + b"x" + bytes([1]) + b"z" + bytes([1]) + b"z")
        # references
        for ref, rname in ((0, "0-before-any"), (1, "forward"), (0x7FFFFFFF, "huge"), (0xFFFFFFFF, "-1")):
            yield "adversarial:ref:%s:v%s" % (rname, tag), wrap(b"(" + le32(2) + b"r" + le32(ref) + b"N")
            yield "adversarial:strref:%s:v%s" % (rname, tag), wrap(b"(" + le32(2) + b"R" + le32(ref) + b"N")
        # a FLAG_REF tuple that references itself while being built
        yield "adversarial:ref:self:v%s" % tag, wrap(bytes([ord("(") | 0x80]) + le32(2) + b"r" + le32(0) + b"N")
        yield "adversarial:ref:self-code:v%s" % tag, hdr + bytes([ord("c") | 0x80]) + code_wrapper(v, b"(" + le32(1) + b"r" + le32(0))[1:]
        # unknown / reserved type codes, NULL in odd places
        for tc in b"0?#\x00\xff@~":
            yield "adversarial:typecode:%02x:v%s" % (tc, tag), wrap(b"(" + le32(2) + bytes([tc]) + b"N")
        # dict without terminator, dict with NULL value
        yield "adversarial:dict-no-terminator:v%s" % tag, wrap(b"(" + le32(1) + b"{" + b"i" + le32(1) + b"i" + le32(2))
        yield "adversarial:dict-null-value:v%s" % tag, wrap(b"(" + le32(1) + b"{" + b"i" + le32(1) + b"0" + b"0")
        # nested code objects all the way down
        inner = b"N"
        for _ in range(40):
            inner = b"(" + le32(1) + code_wrapper(v, inner)
        yield "adversarial:nested-code-40:v%s" % tag, wrap(inner)
        # deep nesting of each container type code
        depths = (200, 2000, 20000) + ((200000,) if big else ())
        for code, opener in (("(", lambda: b"(" + le32(1)), (")", lambda: b")" + bytes([1])), ("[", lambda: b"[" + le32(1)),
                             ("<", lambda: b"<" + le32(1)), (">", lambda: b">" + le32(1)), ("{", lambda: b"{")):
            if code == ")" and v < (3, 4):
                continue
            for d in depths:
                yield "adversarial:deep:%s:%d:v%s" % (code, d, tag), wrap(opener() * d + b"N")
        # code-object header fields at their extremes
        for val, name in ((0x7FFFFFFF, "max"), (0xFFFFFFFF, "-1"), (0x80000000, "min")):
            cw = code_wrapper(v, b"(" + le32(0))
            yield "adversarial:code-int-fields:%s:v%s" % (name, tag), hdr + b"c" + le32(val) * 6 + cw[1 + 24:]


def ref_chain(v, depth, fanout=1):
    """A value nested `depth` levels deep WITHOUT nested marshal objects: level k is a FLAG_REF tuple whose `fanout`
    elements are all back-references to level k-1; the last element of co_consts is a frozenset holding the top level, so
    the loader has to hash it.  fanout=1: deep chain (hash recursion depth); fanout=2: DAG whose naive hash costs 2^depth."""
    parts = [bytes([ord("(") | 0x80]) + le32(1) + b"N"]  # ref 0
    for k in range(1, depth):
        parts.append(bytes([ord("(") | 0x80]) + le32(fanout) + (b"r" + le32(k - 1)) * fanout)
    parts.append(b">" + le32(1) + b"r" + le32(depth - 1))
    consts = b"(" + le32(len(parts)) + b"".join(parts)
    return HEADERS[v] + code_wrapper(v, consts)


def dropbox_headers(rng):
    """Files with the dropbox magic (62135) whose top-level encrypted code object has extreme key / length fields."""
    hdr = struct.pack("<H", 62135) + b"\r\n" + le32(rng.getrandbits(32))  # 8-byte header as in 2.5, then the stream
    for b, bname in ((0, "0"), (1, "1"), (15, "15"), (16, "16"), (17, "17"), (0xFFFFFFFF, "-1"), (0xFFFFFFF9, "-7"), (0xFFFFFFF1, "-15"), (0xFFFFFFF0, "-16"),
                     (0x7FFFFFFF, "2^31-1"), (0x80000000, "-2^31"), (64, "64"), (4096, "4096")):
        for a in (0, 1, 0xFFFFFFFF, rng.getrandbits(32)):
            body = bytes(rng.randrange(256) for _ in range(rng.choice([0, 16, 64, 200])))
            yield "adversarial:dropbox-header:b=%s" % bname, hdr + b"c" + b"i" + le32(a) + b"i" + le32(b) + body
            yield "adversarial:dropbox-header-raw:b=%s" % bname, hdr + b"c" + le32(a) + le32(b) + body


def type_confusion(rng):
    """Code objects whose field slots hold a well-formed marshal object of the wrong type: a dict with huge line numbers
    where the line table belongs, ints / None / lists / nested tuples in the code, name and file-name slots."""
    def mlong(n):
        digs = []
        while n:
            digs.append(n & 0x7FFF)
            n >>= 15
        return b"l" + le32(len(digs)) + b"".join(struct.pack("<H", d) for d in digs)

    objs = {
        "dict-int-2^31-1": b"{" + b"i" + le32(0) + b"i" + le32(0x7FFFFFFF) + b"0",
        "dict-int-2^75": b"{" + b"i" + le32(0) + mlong((1 << 75) - 1) + b"0",
        "dict-many": b"{" + b"".join(b"i" + le32(i * 2) + b"i" + le32((i * 7919) % 100000) for i in range(50)) + b"0",
        "int": b"i" + le32(7),
        "none": b"N",
        "list": b"[" + le32(2) + b"i" + le32(1) + b"N",
        "tuple-of-ints": b"(" + le32(3) + b"i" + le32(1) * 3,
        "long-2^75": mlong(1 << 75),
        "float": b"g" + struct.pack("<d", 1e300),
    }
    for v in sorted(HEADERS):
        for slot in ("lnotab", "code", "names", "varnames", "filename", "name", "freevars", "cellvars"):
            for oname, raw in sorted(objs.items()):
                yield "adversarial:type-confusion:%s=%s:v%d.%d" % (slot, oname, v[0], v[1]), \
                    HEADERS[v] + code_wrapper(v, b"(" + le32(1) + b"N", {slot: raw})


def dropbox_streams(rng):
    """Dropbox files whose (unencrypted) top-level value has hostile length fields."""
    hdr = struct.pack("<H", 62135) + b"\r\n" + le32(rng.getrandbits(32))
    for count, cname in ((100000, "1e5"), (3000000, "3e6"), (0x7FFFFFFF, "2^31-1")):
        for code in (b"[", b"("):
            for neg in (5, 1, 9):
                # each element is a string of length -neg: a reader that accepts it walks backwards and re-reads itself
                yield "adversarial:dropbox-negative-length:count=%s" % cname, hdr + code + le32(count) + b"s" + le32((-neg) & 0xFFFFFFFF) + b"N" * 40
    for t in (b"s", b"t", b"u", b"l", b"(", b"[", b"<", b">"):
        for n in (0x7FFFFFFF, 0x80000000, 0xFFFFFFFF, 0x00FFFFFF):
            yield "adversarial:dropbox-length:%s" % t.decode(), hdr + t + le32(n) + b"N" * 30


def big_containers(v=(3, 8)):
    """n-element containers of 1-byte objects, for the scaling monitor."""
    hdr = HEADERS[v]

    def make(code, n):
        if code == "{":
            body = b"{" + (b"i" + le32(0) + b"N") * 0
            # dict with n int keys
            items = b"".join(b"i" + le32(i) + b"T" for i in range(n))
            body = b"{" + items + b"0"
        elif code == "l":
            body = b"l" + le32(n) + b"\x01\x00" * n
        elif code == "s":
            body = b"s" + le32(n) + b"x" * n
        else:
            body = code.encode() + le32(n) + b"N" * n
        return hdr + code_wrapper(v, b"(" + le32(1) + body)

    return make
