"""Seeded generator of plain marshalable values (workload for C14 / C10) with a
structural class label per value, usable on every host (3.8+).

classify(v) names the *shape* of a value (never its content), so that mismatch
keys built from it are mechanisms, not cases."""
import math
import struct


def int_class(n):
    a = abs(n)
    s = "neg" if n < 0 else "pos"
    if a < 2 ** 15:
        m = "<2^15"
    elif a < 2 ** 31:
        m = "<2^31"
    elif a < 2 ** 63:
        m = "<2^63"
    else:
        m = ">=2^63"
    if n in (-(2 ** 31), -(2 ** 63)):
        m = "min-" + ("32" if n == -(2 ** 31) else "64")
    return "int:%s:%s" % (s, m)


def float_class(x):
    if x != x:
        return "float:nan"
    if x in (float("inf"), float("-inf")):
        return "float:inf"
    if x == 0.0:
        return "float:-0.0" if math.copysign(1, x) < 0 else "float:0.0"
    if abs(x) < 2.2250738585072014e-308:
        return "float:denormal"
    return "float:finite"


def text_class(s):
    if s == "":
        return "text:empty"
    mx = max(ord(c) for c in s)
    sur = any(0xD800 <= ord(c) <= 0xDFFF for c in s)
    if sur:
        return "text:surrogate"
    if mx < 0x80:
        return "text:ascii" + (":len>255" if len(s) > 255 else "")
    if mx < 0x100:
        return "text:latin1"
    if mx < 0x10000:
        return "text:bmp"
    return "text:astral"


def size_class(n):
    if n == 0:
        return "n=0"
    if n <= 3:
        return "n=1-3"
    if n <= 255:
        return "n=4-255"
    return "n>255"


def classify(v):
    if v is None:
        return "None"
    if v is True or v is False:
        return "bool"
    if v is Ellipsis:
        return "Ellipsis"
    if v is StopIteration:
        return "StopIteration"
    t = type(v)
    if t is int:
        return int_class(v)
    if t is float:
        return float_class(v)
    if t is complex:
        return "complex:" + float_class(v.real).split(":")[1] + "," + float_class(v.imag).split(":")[1]
    if t is bytes:
        if not v:
            return "bytes:empty"
        return "bytes:ascii" if max(v) < 0x80 else "bytes:binary"
    if t is str:
        return text_class(v)
    if t in (tuple, list, set, frozenset):
        return "%s:%s" % (t.__name__, size_class(len(v)))
    if t is dict:
        extra = ""
        if None in v:
            extra = ":None-key"
        elif any(x is None for x in v.values()):
            extra = ":None-value"
        return "dict:%s%s" % (size_class(len(v)), extra)
    return "other:" + t.__name__


def children(v):
    t = type(v)
    if t in (tuple, list, set, frozenset):
        return list(v)
    if t is dict:
        out = []
        for k, x in v.items():
            out.append(k)
            out.append(x)
        return out
    if t is complex:
        return []
    return []


INT_EDGES = []
for k in (0, 7, 8, 14, 15, 16, 29, 30, 31, 32, 44, 45, 59, 60, 62, 63, 64, 75, 90, 127, 128, 1000):
    for d in (-1, 0, 1):
        INT_EDGES.append((1 << k) + d)
        INT_EDGES.append(-((1 << k) + d))
INT_EDGES += [10 ** 18, 10 ** 19, 10 ** 100, -(10 ** 100)]

FLOATS = [0.0, -0.0, 1.0, -1.5, 0.1, 1e300, -1e-300, 5e-324, 2.2250738585072014e-308, 1.7976931348623157e308,
          float("inf"), float("-inf"), float("nan"), 3.141592653589793, 1e22, 1e23, 123456789.125, 1 / 3.0]

TEXTS = ["", "a", "hello world", "x" * 255, "y" * 256, "z" * 300, "caf\xe9", "\xff\x80", "Ā", "中文",
         "€ uro", "￿", "\U00010000", "\U0001f600 smile", "\U0010ffff", "\ud800", "\udfff", "a\udc80b",
         "😀", "nul\x00inside", "\n\r\t", "\x7f", "\x80"]

BYTES = [b"", b"a", b"abc", b"\x00", b"\xff\xfe\x00", b"\x80" * 300, bytes(range(256))]


def leaf(rng):
    r = rng.random()
    if r < 0.05:
        return rng.choice([None, True, False, Ellipsis, StopIteration])
    if r < 0.30:
        if rng.random() < 0.6:
            return rng.choice(INT_EDGES)
        return rng.randrange(-(1 << rng.randrange(1, 200)), 1 << rng.randrange(1, 200))
    if r < 0.45:
        if rng.random() < 0.6:
            return rng.choice(FLOATS)
        return struct.unpack(">d", struct.pack(">Q", rng.getrandbits(64)))[0]
    if r < 0.52:
        return complex(rng.choice(FLOATS), rng.choice(FLOATS))
    if r < 0.62:
        return rng.choice(BYTES) if rng.random() < 0.6 else bytes(rng.getrandbits(8) for _ in range(rng.randrange(0, 40)))
    if rng.random() < 0.6:
        return rng.choice(TEXTS)
    n = rng.randrange(0, 12)
    pool = rng.choice([(0x20, 0x7E), (0x80, 0xFF), (0x100, 0xD7FF), (0xE000, 0xFFFF), (0x10000, 0x10FFFF), (0xD800, 0xDFFF),
                       (0, 0x10FFFF)])
    return "".join(chr(rng.randrange(pool[0], pool[1] + 1)) for _ in range(n))


def hashable(rng, depth):
    r = rng.random()
    if depth > 0 and r < 0.2:
        return tuple(hashable(rng, depth - 1) for _ in range(rng.randrange(0, 4)))
    if depth > 0 and r < 0.25:
        return frozenset(hashable(rng, depth - 1) for _ in range(rng.randrange(0, 4)))
    return leaf(rng)


def value(rng, depth=None):
    if depth is None:
        depth = rng.choice([0, 0, 1, 1, 2, 3, 6])
    if depth == 0:
        return leaf(rng)
    r = rng.random()
    n = rng.choice([0, 1, 2, 3, 3, 5, 8, 255, 256, 300]) if depth <= 1 and rng.random() < 0.15 else rng.randrange(0, 5)
    if r < 0.3:
        return tuple(value(rng, depth - 1) for _ in range(n))
    if r < 0.5:
        return [value(rng, depth - 1) for _ in range(n)]
    if r < 0.6:
        return set(hashable(rng, depth - 1) for _ in range(n))
    if r < 0.7:
        return frozenset(hashable(rng, depth - 1) for _ in range(n))
    if r < 0.95:
        d = {}
        for _ in range(n):
            k = hashable(rng, depth - 1)
            d[k] = value(rng, depth - 1)
        if rng.random() < 0.2:
            d[None] = value(rng, 0)
        if rng.random() < 0.2:
            d[rng.randrange(100)] = None
        return d
    return leaf(rng)


def nontrivial(v):
    if v is None or v is True or v is False:
        return False
    if type(v) is int and abs(v) < 256:
        return False
    return True
