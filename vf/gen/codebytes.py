"""Synthetic co_code streams (workload B): well-tiled instruction sequences over the
reference interpreter's own opcode numbers with chosen operand magnitudes - 0, 255,
256, 65535, 65536, 2^24, 2^31-1 - so that one, two and three EXTENDED_ARG prefixes occur
in every position, back to back and in front of jumps whose operands land on
instruction starts.  The reference interpreter builds the code object (truth.py mkcode)
and its own dis is the oracle; the generator only has to produce well-formed bytes."""

MAGS = [0, 1, 255, 256, 257, 32767, 32768, 40000, 65535, 65536, 65537, (1 << 24) - 1, 1 << 24, (1 << 24) + 5, (1 << 31) - 1]


def pick_ops(tables):
    om = tables["opmap"]
    # opcodes whose operand domain is unbounded (RAISE_VARARGS 0-3, CALL_FUNCTION etc. are left out)
    names = ("BUILD_TUPLE", "BUILD_LIST", "BUILD_SET", "BUILD_MAP", "UNPACK_SEQUENCE", "BUILD_STRING", "COPY", "SWAP",
             "BUILD_CONST_KEY_MAP")
    cand = [n for n in names if n in om]
    return [om[n] for n in cand]


def emit(v, tables, op, arg):
    ea = tables["EXTENDED_ARG"]
    if v >= (3, 6):
        out = []
        for shift in (24, 16, 8):
            if arg >> shift:
                out += [ea, (arg >> shift) & 0xFF]
        out += [op, arg & 0xFF]
        return bytes(out)
    out = []
    if arg > 0xFFFF:
        hi = arg >> 16
        out += [ea, hi & 0xFF, (hi >> 8) & 0xFF]
    out += [op, arg & 0xFF, (arg >> 8) & 0xFF]
    return bytes(out)


def nop(v, tables):
    n = tables["opmap"]["NOP"]
    return bytes([n, 0]) if v >= (3, 6) else bytes([n])


def make_code(rng, v, tables, force_sled=None):
    """Return (co_code bytes, description).  force_sled: length (in instructions) of a jumped-over sled that must be present."""
    ops = pick_ops(tables)
    parts = []
    desc = []
    for _ in range(rng.randrange(2, 9)):
        r = rng.random()
        if r < 0.75:
            op = rng.choice(ops)
            a = rng.choice(MAGS) if rng.random() < 0.8 else rng.randrange(1 << rng.randrange(1, 31))
            if v < (3, 6):
                a = min(a, (1 << 31) - 1)
            parts.append(emit(v, tables, op, a))
            desc.append("%d:%d" % (op, a))
        else:
            parts.append(nop(v, tables) * rng.randrange(1, 4))
            desc.append("nop")
    # a forward jump over a sled, long enough to need EXTENDED_ARG now and then
    if "JUMP_FORWARD" in tables["opmap"] and (force_sled or rng.random() < 0.6):
        sled_units = force_sled or rng.choice([1, 3, 130, 300, 70000 if rng.random() < 0.2 else 40])
        one = nop(v, tables)
        sled = one * sled_units
        dist = len(sled)
        arg = dist // 2 if v >= (3, 10) else dist
        parts.append(emit(v, tables, tables["opmap"]["JUMP_FORWARD"], arg))
        parts.append(sled)
        desc.append("jf:%d" % arg)
    parts.append(nop(v, tables))
    return b"".join(parts), ",".join(desc)


BIG_INDEXES = [0, 1, 255, 256, 257, 32767, 32768, 65535, 65536, 65537, 65999]


def make_big_table_code(v, tables):
    """co_code that indexes co_consts and co_names (66 000 entries each) at the operand magnitudes where the
    decoders change behaviour: 255/256, 32767/32768 and 65535/65536 (EXTENDED_ARG carries the high part)."""
    om = tables["opmap"]
    parts = []
    pop = bytes([om["POP_TOP"], 0]) if v >= (3, 6) else bytes([om["POP_TOP"]])
    for k in BIG_INDEXES:
        parts.append(emit(v, tables, om["LOAD_CONST"], k))
        parts.append(pop)
        if "LOAD_NAME" in om:
            parts.append(emit(v, tables, om["LOAD_NAME"], k))
            parts.append(pop)
        if "STORE_NAME" in om:
            parts.append(emit(v, tables, om["LOAD_CONST"], 0))
            parts.append(emit(v, tables, om["STORE_NAME"], k))
    parts.append(nop(v, tables))
    return b"".join(parts)
