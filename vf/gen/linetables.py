"""Well-formed line / location / exception tables (workload L).  The tables are installed in a code object BY the
reference interpreter (truth.py mkcode), which then reports its own findlinestarts / co_lines / co_positions /
_parse_exception_table: V is the oracle, this encoder only has to be well-formed."""


def lnotab(rng, v, code_len, firstlineno=1):
    """co_lnotab for < 3.10: (byte increment, line increment) pairs incl. continuation runs and entries past the end."""
    out = bytearray()
    total = 0
    n = rng.randrange(0, 14)
    signed = v >= (3, 6)
    line = [firstlineno]
    for _ in range(n):
        r = rng.random()
        if r < 0.15:
            out += bytes([255, 0])  # offset continuation
            total += 255
            continue
        if r < 0.3:
            out += bytes([0, 127 if signed else 255])  # line continuation
            line[0] += 127 if signed else 255
            continue
        if rng.random() < 0.12:
            # a pair that is a valid 2-byte UTF-8 sequence (e.g. 200, 128): must not be read as one character
            b1, b2 = rng.randrange(0xC2, 0xE0), rng.randrange(0x80, 0xC0)
            out += bytes([b1, b2])
            total += b1
            line[0] += (b2 - 0x100) if signed else b2
            continue
        bi = rng.choice([0, 1, 2, 2, 4, 6, 10, 100, 200, 254, 255])
        if signed:
            li = rng.choice([0, 1, 1, 2, 5, 100, 127, 128, 129, 200, 255, 0x80, 0xFF])
            if li >= 0x80 and line[0] + li - 0x100 < 1:
                li = 127
            line[0] += li - 0x100 if li >= 0x80 else li
        else:
            li = rng.choice([0, 1, 1, 2, 5, 100, 127, 128, 129, 200, 255])
        out += bytes([bi, li])
        total += bi
    want_len = code_len
    # only 3.8/3.9's dis defines what a table running past the end of the code means ("lines optimised away")
    if v >= (3, 8) and rng.random() < 0.3 and total > 4:
        want_len = max(2, (total // 2) & ~1)  # table runs past the end of the code
    else:
        want_len = max(code_len, (total + 4) & ~1)
    return bytes(out), want_len


def linetable310(rng, firstlineno=1):
    """3.10 co_linetable; the running line is kept >= 1 (-128 = 'no line' does not move it)."""
    out = bytearray()
    total = 0
    line = firstlineno
    for _ in range(rng.randrange(0, 14)):
        sd = rng.choice([0, 0, 2, 2, 4, 8, 100, 254])
        ld = rng.choice([d for d in [0, 1, 1, 2, 5, 100, 127, -1, -2, -100, -127] if line + d >= 1] + [-128])
        if ld != -128:
            line += ld
        out += bytes([sd, ld & 0xFF])
        total += sd
    if not out or out[-2] == 0:
        # a compiler never ends the table with a zero-width entry (those only carry the surplus of a large line delta
        # for the range that follows), and the table covers the code exactly
        out += bytes([2, 0])
        total += 2
    return bytes(out), total


def varint(n):
    out = []
    while True:
        b = n & 63
        n >>= 6
        if n:
            out.append(b | 64)
        else:
            out.append(b)
            return bytes(out)


def svarint(n):
    return varint(((-n) << 1) | 1) if n < 0 else varint(n << 1)


def locations311(rng, firstlineno=1):
    """3.11+ location table; returns (bytes, number of code units covered).  The running line number is kept >= 1:
    a table that drives it negative is not something a compiler can emit (CPython then reports no line)."""
    out = bytearray()
    units = 0
    line = [firstlineno]

    def pick(choices):
        ok = [d for d in choices if line[0] + d >= 1]
        d = rng.choice(ok or [0])
        line[0] += d
        return d
    for _ in range(rng.randrange(1, 16)):
        length = rng.randrange(1, 9)
        form = rng.choice(["short", "short", "one", "one", "nocol", "long", "long", "none"])
        if form == "short":
            code = rng.randrange(0, 10)
            out += bytes([0x80 | (code << 3) | (length - 1), (rng.randrange(8) << 4) | rng.randrange(16)])
        elif form == "one":
            code = rng.choice([10, 11, 12])
            line[0] += code - 10
            out += bytes([0x80 | (code << 3) | (length - 1), rng.randrange(128), rng.randrange(128)])
        elif form == "nocol":
            out += bytes([0x80 | (13 << 3) | (length - 1)]) + svarint(pick([0, 1, -1, 5, -5, 63, 64, 200, -200, 5000, -3000, 70000]))
        elif form == "long":
            out += bytes([0x80 | (14 << 3) | (length - 1)])
            out += svarint(pick([0, 1, -1, 31, 32, 33, -33, 2047, 2048, -2048, 100000]))
            out += varint(rng.choice([0, 1, 2, 63, 64, 4095, 4096]))
            out += varint(rng.choice([0, 1, 2, 64, 127, 128, 129, 300, 5000]))
            out += varint(rng.choice([0, 1, 2, 64, 127, 128, 129, 300, 5000]))
        else:
            out += bytes([0x80 | (15 << 3) | (length - 1)])
        units += length
    return bytes(out), units


def be_varint(n, first=False):
    """Exception-table varint: 6-bit groups, most significant first, continuation bit 64; entry start flag 128."""
    groups = []
    while True:
        groups.append(n & 63)
        n >>= 6
        if not n:
            break
    groups.reverse()
    out = bytearray()
    for i, g in enumerate(groups):
        b = g | (64 if i < len(groups) - 1 else 0)
        if first and i == 0:
            b |= 128
        out.append(b)
    return bytes(out)


def exctable(rng, units):
    out = bytearray()
    for _ in range(rng.randrange(0, 6)):
        start = rng.randrange(0, max(1, units))
        size = rng.choice([1, 2, 5, 63, 64, 65, 300, 5000])
        target = rng.choice([0, 1, 63, 64, 4095, 4096, rng.randrange(0, max(1, units))])
        depth = rng.choice([0, 1, 2, 31, 32, 100])
        lasti = rng.randrange(2)
        out += be_varint(start, True) + be_varint(size) + be_varint(target) + be_varint((depth << 1) | lasti)
    return bytes(out)
