"""Independent marshal stream synthesiser (workload S for C10).  Does not use
xdis.marsh or the host's marshal: it writes type codes by hand so that every
encoding the FORMAT permits can be produced (format versions 0-4, text/binary
floats, i / I / l ints, interned strings and string back-references, ASCII /
short / interned text forms, FLAG_REF on any object and `r` back-references,
small and large tuples, lists, dicts incl. None keys/values, sets).

The synthesiser is NOT trusted: every stream is first given to the reference
interpreter's own marshal.loads; a stream it rejects is discarded and counted.
"""
import struct

from .mutate import code_wrapper, le32

FLAG_REF = 0x80


def le64(n):
    return struct.pack("<Q", n & 0xFFFFFFFFFFFFFFFF)


class Synth:
    """One stream = one co_consts tuple of independently labelled elements that
    may share objects through the reference table."""

    def __init__(self, rng, v):
        self.rng = rng
        self.v = v
        self.py2 = v < (3, 0)
        self.refs_ok = v >= (3, 4)
        self.nrefs = 0
        self.complete = []  # (index, hashable, label)
        self.ninterned = 0  # python 2 interned-string table
        self.codes = set()

    # -- primitives -------------------------------------------------------
    def tc(self, ch, flag=False):
        self.codes.add(ch + ("*" if flag else ""))
        b = ord(ch)
        if flag:
            b |= FLAG_REF
        return bytes([b])

    def want_flag(self, p=0.3):
        return self.refs_ok and self.rng.random() < p

    def reserve(self, flag):
        if flag:
            i = self.nrefs
            self.nrefs += 1
            return i
        return None

    def done(self, idx, hashable, label):
        if idx is not None:
            self.complete.append((idx, hashable, label))

    # -- leaves -----------------------------------------------------------
    def gen_int(self, flag):
        r = self.rng
        n = r.choice([0, 1, -1, 255, 2 ** 15 - 1, 2 ** 15, 2 ** 31 - 1, -(2 ** 31), 2 ** 31, 2 ** 32, 2 ** 63 - 1, -(2 ** 63), 2 ** 63,
                      2 ** 75 + 3, -(10 ** 30), 10 ** 100, r.randrange(-(2 ** 70), 2 ** 70)])
        forms = []
        if -(2 ** 31) <= n < 2 ** 31:
            forms.append("i")
        if -(2 ** 63) <= n < 2 ** 63 and (self.py2 or self.v < (3, 4)):
            forms.append("I")
        forms.append("l")
        f = r.choice(forms)
        if f == "i":
            return self.tc("i", flag) + struct.pack("<i", n), "int:i"
        if f == "I":
            return self.tc("I", flag) + struct.pack("<q", n), "int:I"
        a = abs(n)
        digits = []
        while a:
            digits.append(a & 0x7FFF)
            a >>= 15
        cnt = len(digits) if n >= 0 else -len(digits)
        return self.tc("l", flag) + struct.pack("<i", cnt) + b"".join(struct.pack("<H", d) for d in digits), "int:l:%s" % (
            "zero" if not digits else ("small" if len(digits) <= 2 else "big"))

    def gen_float(self, flag):
        r = self.rng
        x = r.choice([0.0, -0.0, 1.5, -2.25, 1e300, 5e-324, float("inf"), float("-inf"), float("nan"), 0.1, 1e22, r.random()])
        if r.random() < 0.5 or (self.py2 and x != x):
            # (text "nan" is not generated for Python 2: its float("nan") yields a sign-bit-set NaN on this platform,
            #  an artefact of the reader's strtod that is not in the file - see DESIGN.md s7/C10)
            return self.tc("g", flag) + struct.pack("<d", x), "float:g"
        s = repr(x).encode("ascii")
        return self.tc("f", flag) + bytes([len(s)]) + s, "float:f"

    def gen_complex(self, flag):
        r = self.rng
        a = r.choice([0.0, -0.0, 1.5, float("inf"), float("nan"), 2.5e-3])
        b = r.choice([0.0, -0.0, -1.5, float("-inf"), 1e10])
        if r.random() < 0.5 or (self.py2 and (a != a or b != b)):
            return self.tc("y", flag) + struct.pack("<dd", a, b), "complex:y"
        sa, sb = repr(a).encode("ascii"), repr(b).encode("ascii")
        return self.tc("x", flag) + bytes([len(sa)]) + sa + bytes([len(sb)]) + sb, "complex:x"

    def gen_bytes(self, flag):
        r = self.rng
        b = r.choice([b"", b"abc", b"\xff\xfe\x00", b"x" * 300, bytes(r.getrandbits(8) for _ in range(r.randrange(0, 20)))])
        if self.py2:
            form = r.choice(["s", "s", "t", "R"])
            if form == "t":
                self.ninterned += 1
                return self.tc("t") + le32(len(b)) + b, "str2:t"
            if form == "R" and self.ninterned:
                return self.tc("R") + le32(r.randrange(self.ninterned)), "str2:R"
            return self.tc("s") + le32(len(b)) + b, "str2:s"
        return self.tc("s", flag) + le32(len(b)) + b, "bytes:s"

    def gen_text(self, flag):
        r = self.rng
        s = r.choice(["", "a", "hello", "x" * 255, "y" * 256, "café", "中文", "\U0001f600", "\ud800", "a\udfffb", "\x00", "\x7f"])
        ascii_ok = all(ord(c) < 128 for c in s)
        forms = ["u"]
        if not self.py2 and self.v >= (3, 4):
            if ascii_ok:
                forms += ["a", "A"]
                if len(s) < 256:
                    forms += ["z", "Z"]
            forms.append("t")
        f = r.choice(forms)
        if f == "u" or f == "t":
            b = s.encode("utf-8", "surrogatepass")
            return self.tc(f, flag) + le32(len(b)) + b, "text:%s:%s" % (f, "ascii" if ascii_ok else ("surrogate" if any(0xD800 <= ord(c) <= 0xDFFF for c in s) else "nonascii"))
        b = s.encode("ascii")
        lab = "text:" + f
        if r.random() < 0.15 and len(b) < 250:
            # the ASCII forms with bytes >= 0x80: no compiler writes that, but marshal accepts it (reads the bytes as Latin-1)
            b = b + r.choice([b"\xe9", b"\xff\x80", b"\xc3\xa9"])
            lab += ":high-bytes"
        if f in ("a", "A"):
            return self.tc(f, flag) + le32(len(b)) + b, lab
        return self.tc(f, flag) + bytes([len(b)]) + b, lab

    def gen_singleton(self):
        ch = self.rng.choice("NTF.S")
        return self.tc(ch), "singleton:" + ch

    def gen_ref(self, need_hashable):
        cands = [c for c in self.complete if c[1] or not need_hashable]
        if not cands:
            return None
        idx, h, label = self.rng.choice(cands)
        return self.tc("r") + le32(idx), "ref->" + label.split(":")[0], h

    # -- recursive --------------------------------------------------------
    def gen_obj(self, depth, need_hashable=False):
        """Returns (bytes, label, hashable)."""
        r = self.rng
        if self.refs_ok and self.complete and r.random() < 0.18:
            g = self.gen_ref(need_hashable)
            if g:
                return g
        p = r.random()
        if depth <= 0 or p < 0.55:
            flag = self.want_flag()
            idx = self.reserve(flag)
            k = r.random()
            if k < 0.08:
                if idx is not None:
                    self.nrefs -= 1  # singletons never take a slot
                    idx = None
                b, lab = self.gen_singleton()
            elif k < 0.35:
                b, lab = self.gen_int(flag)
            elif k < 0.5:
                b, lab = self.gen_float(flag)
            elif k < 0.58:
                b, lab = self.gen_complex(flag)
            elif k < 0.72:
                b, lab = self.gen_bytes(flag)
                if self.py2:
                    idx = None
            else:
                b, lab = self.gen_text(flag)
            if idx is not None and not (b[0] & FLAG_REF):
                # generator chose a form that cannot carry the flag
                self.nrefs -= 1
                idx = None
            self.done(idx, True, lab)
            return b, lab + ("*" if idx is not None else ""), True
        kinds = ["(", "(", "[", "{"] if need_hashable is False else ["("]
        if not self.py2 or True:
            kinds += ["<", ">"] if not need_hashable else [">"]
        if self.refs_ok:
            kinds.append(")")
        kind = r.choice(kinds)
        flag = self.want_flag(0.45)
        idx = self.reserve(flag)
        n = r.choice([0, 1, 2, 3, 3, 5]) if r.random() < 0.9 else r.choice([255, 256, 300])
        if kind == ")":
            n = min(n, 255)
        parts = []
        sub = []
        hashable = kind in ("(", ")", ">")
        if kind == "{":
            out = self.tc("{", flag)
            for _ in range(min(n, 6)):
                kb, kl, _h = self.gen_obj(0, need_hashable=True) if r.random() > 0.15 else (self.tc("N"), "singleton:N", True)
                vb, vl, _h2 = self.gen_obj(depth - 1) if r.random() > 0.2 else (self.tc("N"), "singleton:N", True)
                out += kb + vb
                sub.append(kl.split(":")[0] + "=" + vl.split(":")[0])
            out += self.tc("0")
            lab = "dict" + (":None-key" if any(s.startswith("singleton=") for s in sub) else "") + (
                ":None-value" if any(s.endswith("=singleton") for s in sub) else "")
            self.done(idx, False, lab)
            return out, lab + ("*" if flag else ""), False
        elem_hashable = kind in ("<", ">")
        for _ in range(n):
            if n > 10:
                eb, el, eh = self.tc("N"), "singleton:N", True
                if r.random() < 0.05:
                    eb, el, eh = self.gen_obj(0, need_hashable=elem_hashable)
            else:
                eb, el, eh = self.gen_obj(depth - 1, need_hashable=elem_hashable or need_hashable)
            parts.append(eb)
            hashable = hashable and eh
        if kind == ")":
            out = self.tc(")", flag) + bytes([n])
        else:
            out = self.tc(kind, flag) + le32(n)
        out += b"".join(parts)
        lab = {"(": "tuple", ")": "smalltuple", "[": "list", "<": "set", ">": "frozenset"}[kind] + (":n>255" if n > 255 else "")
        self.done(idx, hashable and kind != "[" and kind != "<", lab)
        return out, lab + ("*" if flag else ""), hashable and kind not in ("[", "<")


BIG_LENGTHS = [(1 << 20) + 5, (1 << 20), 2 * (1 << 20) - 7, 65536 + 1]


def make_big_stream(rng, v, form):
    """A co_consts tuple holding one string-like object whose 4-byte length exceeds 1 MiB (a loader that reads in
    chunks must not lose the tail), followed by a small witness element that shows the stream position afterwards."""
    s = Synth(rng, v)
    n = rng.choice(BIG_LENGTHS)
    fill = bytes((i * 7 + 3) % 95 + 32 for i in range(251))  # printable ASCII, period 251: truncation changes the value
    body = (fill * (n // 251 + 1))[:n]
    if form == "u8":  # non-ASCII UTF-8 text
        ch = "\u00e9".encode("utf-8")
        body = (ch * (n // 2 + 1))[: n - (n % 2)]
        tcode = "u"
    else:
        tcode = form
    flag = s.refs_ok and rng.random() < 0.5
    big = s.tc(tcode, flag) + le32(len(body)) + body
    s.reserve(flag)
    if tcode == "t" and s.py2:
        s.ninterned += 1
    tail = s.tc("i") + le32(123456789)
    consts = b"(" + le32(2) + big + tail
    return ["big:%s:%d" % (form, len(body)), "int:i"], code_wrapper(v, consts), sorted(s.codes)


def big_forms(v):
    if v < (3, 0):
        return ["s", "t", "u"]
    out = ["s", "u", "u8"]
    if v >= (3, 4):
        out += ["a", "A", "t"]
    return out


def make_stream(rng, v, n_elems=None):
    """Return (labels, payload_bytes) - the marshal of a minimal code object
    for version v whose co_consts holds the synthesised elements."""
    s = Synth(rng, v)
    k = n_elems or rng.choice([1, 1, 1, 2, 3, 4, 6])
    labels = []
    parts = []
    for _ in range(k):
        b, lab, _h = s.gen_obj(rng.choice([0, 1, 2, 2, 3]))
        parts.append(b)
        labels.append(lab)
    consts = b"(" + le32(k) + b"".join(parts)
    return labels, code_wrapper(v, consts), sorted(s.codes)
