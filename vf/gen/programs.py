"""Seeded generator of small deterministic Python programs (workload G).

A library of parametrised snippet templates, each tagged with the minimum
syntax level it needs, composed by a seeded driver into modules with random
nesting (function / class / closure wrappers), random identifier pools and
random vertical spacing.  Programs only `print`, terminate, and do not depend
on hash order, so they can also be executed (C13).

Levels: (2,7) (3,6) (3,7) (3,8) (3,9) (3,10) (3,11) (3,12) (3,13).
Every program is compiled by the target interpreter before use; one it rejects
is dropped and counted by the caller.
"""
import random

TEMPLATES = []


def template(minlevel=(2, 7), py2=True, tags=()):
    def deco(fn):
        TEMPLATES.append({"fn": fn, "min": minlevel, "py2": py2, "tags": tags, "name": fn.__name__})
        return fn
    return deco


def ident(rng, u, base="v"):
    return "%s%s_%d" % (base, u, rng.randrange(1000))


INT_EDGES = [0, 1, -1, 255, 256, 32767, 32768, 65535, 65536, 2**31 - 1, 2**31, -(2**31), -(2**31) - 1,
             2**32 - 1, 2**32, 2**63 - 1, 2**63, -(2**63), -(2**63) - 1, 2**64, 2**15 - 1, 2**15, 2**30 - 1,
             2**30, 2**45, 2**60, 2**75 + 12345, 10**18, 10**19, 10**40, 10**300, -(10**300) + 7,
             2**(15 * 5) - 1, 2**(15 * 5), 2**(30 * 3), 2**1000 + 1]


@template(tags=("int",))
def t_ints(rng, lvl, u):
    out = []
    for i in range(rng.randrange(3, 10)):
        n = rng.choice(INT_EDGES) + rng.choice([0, 0, 1, -1, rng.randrange(1000)])
        out.append("i%s_%d = %d" % (u, i, n))
    # every boundary value, whatever the seed (each 32- / 64-bit and digit-count boundary has had its own defect)
    out.append("ie%s = [%s]" % (u, ", ".join(str(n) for n in INT_EDGES)))
    out.append("ien%s = (%s)" % (u, ", ".join(str(-n) for n in INT_EDGES)))
    out.append("print(ie%s[9], ie%s[12], ien%s[10])" % (u, u, u))
    # ints beyond 4300 decimal digits (3.11+ hosts refuse to print them in decimal), alone and inside every container kind;
    # written in hex so that every compiler accepts the literal
    h = "0x" + "".join(rng.choice("123456789abcdef") for _ in range(3700))
    out.append("ih%s_0 = %s" % (u, h))
    out.append("ih%s_1 = (1, %s)" % (u, h))
    out.append("ih%s_2 = (2.5, (3, -%s))" % (u, h))
    out.append("def ihf%s(a):\n    return a in (%s, 5), a in [7, %s, 'x']" % (u, h, h))
    if lvl >= (3, 6):
        out.append("def ihg%s(a):\n    return a in {%s, 5}" % (u, h))
        out.append("def ihd%s(a, b):\n    return {%s: a, 5: b}, {'k': %s, 'j': a}" % (u, h, h))
    out.append("print(i%s_0)" % u)
    return "\n".join(out)


@template(tags=("int", "py2long"), py2=True)
def t_py2_long(rng, lvl, u):
    if lvl >= (3, 0):
        return "l%s = %d\nprint(l%s)" % (u, rng.choice(INT_EDGES), u)
    out = []
    for i, n in enumerate(rng.sample(INT_EDGES, 5)):
        out.append("l%s_%d = %dL" % (u, i, n))
    out.append("l%s_s = 5L\nprint(l%s_s + 1)" % (u, u))
    return "\n".join(out)


@template(tags=("float",))
def t_floats(rng, lvl, u):
    vals = ["0.0", "-0.0", "1e999", "-1e999", "5e-324", "1.7976931348623157e308", "2.2250738585072014e-308",
            "0.1", "1.5", "-2.75", "3.141592653589793", "1e22", "1e23", "123456789.125",
            "(1e999 - 1e999)", "(-(1e999 - 1e999))", "(0.0 * -1.0)", "1e-7", "%r" % rng.random(),
            "%r" % (rng.random() * 10 ** rng.randrange(-300, 300))]
    out = []
    for i, v in enumerate(rng.sample(vals, rng.randrange(4, 10))):
        out.append("f%s_%d = %s" % (u, i, v))
    out.append("print(repr(f%s_0))" % u)
    return "\n".join(out)


@template(tags=("complex",))
def t_complex(rng, lvl, u):
    vals = ["1j", "-1j", "0j", "2.5j", "1e999j", "(1+2j)", "(-0.0+0j)", "(1.5-2.5j)", "(1e999+1e999j)",
            "(3-0j)", "-0j", "%rj" % rng.random()]
    out = []
    for i, v in enumerate(rng.sample(vals, rng.randrange(3, 7))):
        out.append("c%s_%d = %s" % (u, i, v))
    out.append("print(repr(c%s_0))" % u)
    return "\n".join(out)


TEXTS = ["", "a", "hello world", "caf\\xe9", "\\xff\\x00\\x7f", "\\u4e2d\\u6587", "\\U0001f600 smile", "\\ud800",
         "\\udc80x", "\\udfff\\ud800", "tab\\there", "nl\\nhere", "q'q\"q", "\\x00", "\\u20ac", "x" * 300,
         "\\u00e9" * 130, "\\U00010000", "\\ufeff", "ident_like", "with space", "\\\\"]


@template(tags=("text", "bytes"))
def t_strings(rng, lvl, u):
    out = []
    for i in range(rng.randrange(3, 9)):
        t = rng.choice(TEXTS)
        if lvl < (3, 0):
            kind = rng.choice(["", "u", "u", "b"])
            if kind != "u" and ("\\u" in t or "\\U" in t):
                kind = "u"
            out.append("s%s_%d = %s'%s'" % (u, i, kind, t.replace("'", "\\'")))
        else:
            kind = rng.choice(["", "", "b"])
            if kind == "b" and ("\\u" in t or "\\U" in t):
                kind = ""
            out.append("s%s_%d = %s'%s'" % (u, i, kind, t.replace("'", "\\'")))
    # always: non-ASCII text together with control characters and both quote characters (one listing row per instruction)
    out.append("sm%s = %s'\\u00e9\\u4e2d\\n\\r\\x0b\\t\\'\"end'" % (u, "u" if lvl < (3, 0) else ""))
    out.append("print(len(s%s_0))" % u)
    return "\n".join(out)


@template(tags=("bytes",))
def t_bytes(rng, lvl, u):
    bs = ["b''", "b'abc'", "b'\\xff\\xfe\\x00'", "b'\\x80' * 3", "b'%s'" % ("z" * 260), "b'\\n\\r\\t'"]
    out = ["b%s_%d = %s" % (u, i, b) for i, b in enumerate(rng.sample(bs, 3))]
    out.append("print(len(b%s_0))" % u)
    return "\n".join(out)


@template(tags=("many_consts", "EXTENDED_ARG"))
def t_many_consts(rng, lvl, u):
    n = rng.choice([40, 260, 300, 520])
    base = rng.randrange(1000, 100000)
    body = ["    k = 0"]
    for i in range(n):
        body.append("    k = %d" % (base + i * 7))
    body.append("    k = %r" % "last")
    body.append("    return k")
    return "def many%s():\n%s\nprint(many%s())" % (u, "\n".join(body), u)


@template(tags=("many_names", "EXTENDED_ARG"))
def t_many_names(rng, lvl, u):
    n = rng.choice([30, 258, 300])
    lines = []
    for i in range(n):
        lines.append("g%s_%d = %d" % (u, i, i))
    lines.append("print(g%s_%d + g%s_0)" % (u, n - 1, u))
    return "\n".join(lines)


@template(tags=("many_locals", "EXTENDED_ARG"))
def t_many_locals(rng, lvl, u):
    n = rng.choice([20, 257, 300])
    body = ["    a%d = %d" % (i, i) for i in range(n)]
    body.append("    return a%d + a0" % (n - 1))
    return "def loc%s():\n%s\nprint(loc%s())" % (u, "\n".join(body), u)


@template(tags=("frozenset", "big_tuple"))
def t_containers(rng, lvl, u):
    n = rng.choice([3, 5, 260, 300])
    elems = ", ".join(str(rng.randrange(10**6)) for _ in range(n))
    out = ["def cont%s(x):" % u,
           "    if x in {%s}:" % ", ".join(str(i) for i in rng.sample(range(50), rng.randrange(2, 9))),
           "        return 1",
           "    if x in (%s,):" % elems,
           "        return 2",
           "    for q in [1, 2, 3]:",
           "        pass",
           "    return (1, (2, 3), ((4,), 'five', %s), None, True, ...)" % rng.choice(["b'six'", "6.5", "7j", "'s'"]) if lvl >= (3, 0) else
           "    return (1, (2, 3), ((4,), 'five', 6.5), None, True)",
           "print(cont%s(3))" % u]
    return "\n".join(out)


@template(tags=("shared_consts", "FLAG_REF"))
def t_shared(rng, lvl, u):
    tup = "(%d, 'shared%s', (1.5, %d))" % (rng.randrange(1000), u, rng.randrange(100))
    out = []
    for i in range(rng.randrange(3, 8)):
        out.append("def sh%s_%d():\n    return %s, 'shared%s', %d" % (u, i, tup, u, 2**40 + 5))
    out.append("print(sh%s_0() == sh%s_1())" % (u, u))
    return "\n".join(out)


@template(tags=("shared_consts", "FLAG_REF", "big_tuple"))
def t_shared_big_tuple(rng, lvl, u):
    """The same > 255-element constant tuple in two functions whose other constants differ: from 3.8 on marshal
    writes it once with FLAG_REF and refers back to it (and to its flagged elements)."""
    n = rng.choice([256, 260, 300])
    base = rng.randrange(10 ** 6)
    elems = ", ".join(("%d" % (base + 3 * i)) if i % 7 else ("'e%s_%d'" % (u, i)) for i in range(n))
    return """def sbt%(u)s_a(x):
    return x in (%(e)s), 'only-a-%(u)s', %(k)d
def sbt%(u)s_b(x):
    return x in (%(e)s), 'only-b-%(u)s', 2.5
print(sbt%(u)s_a(%(b)d)[0], sbt%(u)s_b(-1)[0])""" % {"u": u, "e": elems, "k": 2 ** 40 + base, "b": base + 3}


@template(minlevel=(3, 6), py2=False, tags=("frozenset", "bytes", "text"))
def t_set_of_bytes(rng, lvl, u):
    """Frozenset constants whose members are bytes (valid UTF-8 and not), text and mixtures of equal-looking bytes/text."""
    return """def sb%(u)s(x):
    if x in {b"GET", b"POST", b"HEAD"}:
        return 1
    if x in {b"a", "a", b"\\xff\\xfe", "caf\\xe9", b"caf\\xc3\\xa9"}:
        return 2
    if x in {1, 1.5, b"1", "1", (b"t", "t")}:
        return 3
    return 0
print(sb%(u)s(b"GET"), sb%(u)s("a"), sb%(u)s(b"1"), sb%(u)s(None))""" % {"u": u}


@template(tags=("py2_raise3", "try"), py2=True)
def t_py2_raise(rng, lvl, u):
    """Python 2 only: the three-argument raise (RAISE_VARARGS 3), two-argument raise, exec and backticks."""
    if lvl >= (3, 0):
        return "def r3%s():\n    raise ValueError('x')\ntry:\n    r3%s()\nexcept ValueError:\n    print('ve')" % (u, u)
    return """import sys
def r3%(u)s():
    try:
        raise ValueError, "three", None
    except ValueError:
        tb = sys.exc_info()[2]
    try:
        raise KeyError, "again", tb
    except KeyError, e:
        return `e.args`
def r2%(u)s():
    try:
        raise IndexError, "two"
    except IndexError, e:
        return e.args
def ex%(u)s():
    d = {}
    exec "z = 1 + 2" in d
    return d["z"]
print(r3%(u)s(), r2%(u)s(), ex%(u)s())""" % {"u": u}


@template(tags=("shared_consts", "FLAG_REF", "frozenset"))
def t_shared_frozenset(rng, lvl, u):
    """The same set display (ints or bytes) in a class body and in its methods: the compiler merges the
    frozenset constants and marshal writes one of them with FLAG_REF plus back-references."""
    base = rng.randrange(300, 9000)
    elems = ", ".join(str(base + i) for i in rng.sample(range(12), rng.randrange(3, 7)))
    return """class SF%(u)s(object):
    ok = %(b)d in {%(e)s}
    def m(self, x):
        return x in {%(e)s}
    def n(self, x):
        return x not in {%(e)s}, (%(b)d, %(b)d)
print(SF%(u)s.ok, SF%(u)s().m(%(b)d), SF%(u)s().n(1))""" % {"u": u, "e": elems, "b": base}


@template(tags=("while_long_body", "backward_lines", "line_gaps"))
def t_long_loop(rng, lvl, u):
    """A loop whose body spans more than 127 source lines: the jump back to the loop head is a line step
    below -127 (multi-entry line-table gap, negative direction)."""
    n = rng.choice([130, 140, 260])
    body = "\n".join("        t += %d" % i for i in range(n))
    return """def ll%(u)s(k):
    t = 0
    while k > 0:
        k -= 1
%(body)s
    return t
print(ll%(u)s(2))""" % {"u": u, "body": body}


@template(tags=("extended_format_edges",))
def t_ext_edges(rng, lvl, u):
    """Shapes that have tripped the 'extended' listing formatters: a subscript store as the first thing in a code
    object, a zero-argument call of a function made on the spot, in-place modulo, unicode constants with control
    characters."""
    uni = "u" if lvl < (3, 0) else ""
    return """def ee1%(u)s(a):
    a[0] = 1
def ee2%(u)s(a, i):
    a[i] = a
    a[i][i] = i
def ee3%(u)s():
    return (lambda: 7)()
def ee4%(u)s(a, b):
    a %%= b
    a = a %% b
    return a
class EE5%(u)s(object):
    x = {}
    x[1] = 2
ee6%(u)s = %(uni)s'line1\\nline2\\ttab\\x0b\\x0c quote\\' dq" end'
def ee7%(u)s():
    def inner():
        return 1
    return inner()
print(ee3%(u)s(), ee4%(u)s(7, 3), ee7%(u)s(), len(ee6%(u)s))""" % {"u": u, "uni": uni}


@template(tags=("big_try", "try"))
def t_big_try(rng, lvl, u):
    """A try / except / finally (and a loop) that starts beyond byte offset 8192 of its code object: exception-table entries
    and jump operands there need multi-byte varints / EXTENDED_ARG."""
    body = "\n".join("    a = a + i" for _ in range(950))
    return ("def bt%s(a, i):\n%s\n    try:\n        a = a // i\n    except ZeroDivisionError:\n        a = -1\n    finally:\n        i = 0\n"
            "    for k in (1, 2):\n        try:\n            a += k\n        except ValueError:\n            continue\n    return a\nprint(bt%s(1, 1))" % (u, body, u))


@template(tags=("big_literal",))
def t_big_literal(rng, lvl, u):
    """One bytes and one text literal a little above 1 MiB (a reader that takes long strings in chunks must not lose or
    duplicate the tail)."""
    n = (1 << 20) + 4096 + rng.randrange(1, 9)
    unit = "".join(chr(33 + (i * 7) % 90) for i in range(251)).replace("\\", "/").replace("'", "!")
    body = (unit * (n // len(unit) + 1))[:n]
    return "bl%s = b'%s'\nsl%s = '%sZ'\nprint(len(bl%s), len(sl%s))" % (u, body, u, body[: n - 7], u, u)


def _eq_tuples(u, variant):
    a = {"a": ("0", "0.0", "1", "0", "(1, 2)"), "b": ("False", "-0.0", "True", "0.0", "(True, 2)")}[variant]
    return ("def et%s_1(p=%s, q=None):\n    return p, q\ndef et%s_2(p=%s, q=1.5):\n    return p, q\n"
            "def et%s_3(p=%s):\n    return p\net%s_4 = (%s, None, 'x')\ndef et%s_5(p=%s, q=%s):\n    return p in (%s, 7)\nprint(et%s_1())"
            % (u, a[0], u, a[1], u, a[2], u, a[3], u, a[4], a[0], a[0], u))


@template(tags=("equal_tuples",))
def t_eq_tuples_a(rng, lvl, u):
    """Constant tuples that compare equal to those of t_eq_tuples_b but are other constants: (0, None) / (False, None),
    (0.0, 1.5) / (-0.0, 1.5), (1,) / (True,).  Anything remembered by *equality* between two listings mixes them up."""
    return _eq_tuples(u, "a")


@template(tags=("equal_tuples",))
def t_eq_tuples_b(rng, lvl, u):
    return _eq_tuples(u, "b")


@template(tags=("frozenset", "iteration_order"))
def t_set_iter_order(rng, lvl, u):
    """Iteration over frozenset constants whose int members collide in the hash table: the order a program observes depends on
    the order in which the members were inserted, i.e. on the order they have in the file."""
    sets = ["{32, 64, 0}", "{8, 16, 24, 0, 40}", "{1024, 0, 2048, 8, 4096}", "{64, 32, 96, 0}", "{-1, -2, 30, 62}",
            "{%s}" % ", ".join(str(x) for x in rng.sample(range(0, 512, 8), 6))]
    out = []
    for i, st in enumerate(sets):
        out.append("def so%s_%d():\n    r = []\n    for x in %s:\n        r.append(x)\n    return r" % (u, i, st))
        out.append("so%s_v%d = [y for y in %s]" % (u, i, st))
    out.append("print(%s)" % ", ".join("so%s_%d()" % (u, i) for i in range(len(sets))))
    out.append("print(3 in {32, 64, 0, 3}, 5 in {32, 64, 0, 3})")
    return "\n".join(out)


@template(tags=("text", "new_unicode"), minlevel=(3, 6), py2=False)
def t_new_unicode(rng, lvl, u):
    """Text constants with code points assigned in Unicode 13, 14, 15 and 15.1: whether str.__repr__ shows them or escapes
    them depends on the Unicode database of the *running* interpreter (3.8: 12.1 ... 3.13: 15.1)."""
    return ("nu%s_13 = '\\U0001fad6 tea'\nnu%s_14 = 'x\\U0001f979\\u0870'\nnu%s_15 = '\\U0001fae8'\nnu%s_151 = '\\u2ffc'\n"
            "def nuf%s():\n    return ('\\U0001fae8', '\\U00011f00')\nprint(len(nu%s_13))" % (u, u, u, u, u, u))


@template(tags=("ext_jumps",))
def t_ext_jumps(rng, lvl, u):
    """Every aggregate-building construct with an operand that contains a jump (conditional expression, `or`, `and`, chained
    comparison) in first, middle and last position: the 'extended' formatters walk back over operand instructions and
    must cope with jump targets in between."""
    operands = ["(q if c else r)", "(q or r)", "(q and r)", "(a < q < r)", "(not q)"]
    constructs = [
        ("dictc", "{'a': %s, 'b': %s, 'c': %s}"), ("dictv", "{p: %s, q: %s, r: %s}"), ("tup", "(%s, %s, %s)"), ("lst", "[%s, %s, %s]"),
        ("set", "set([%s, %s, %s])"), ("call", "f(%s, %s, %s)"), ("callkw", "f(%s, k=%s, j=%s)"), ("meth", "p.m(%s, %s, %s)"),
        ("sub", "p[%s][%s][%s]"), ("slice", "p[%s:%s:%s]"), ("binop", "%s + %s * %s"), ("cmp", "%s < %s != %s"),
        ("fmt", "'%%s %%s %%s' %% (%s, %s, %s)"), ("attr", "(%s).x.y(%s)(%s)"),
    ]
    if lvl >= (3, 6):
        constructs += [("fstr", "f'{%s} {%s!r} {%s:>5}'"), ("star", "f(*%s, **%s, z=%s)"), ("setd", "{%s, %s, %s}"),
                       ("dictu", "{'a': %s, **%s, 'z': %s}")]
    out = []
    n = 0
    for cname, tmpl in constructs:
        for pos in range(3):
            op = operands[(n + pos) % len(operands)]
            args = ["p", "q", "r"]
            args[pos] = op
            out.append("def ej%s_%s%d(p, q, r, c, a, f):\n    return %s" % (u, cname, pos, tmpl % tuple(args)))
            n += 1
    # statements whose operands jump
    out.append("def ej%s_st(p, q, r, c, a, f):\n    p[q if c else r] = (q or r)\n    p.x = q if c else r\n    x, y = (q or r), (q and r)\n"
               "    del p[q or r]\n    assert (q or r), (q if c else r)\n    return x if y else p" % u)
    out.append("print(ej%s_tup0(1, 2, 3, 0, 1, None), ej%s_dictc2(1, 2, 3, 1, 0, None)['c'])" % (u, u))
    return "\n".join(out)


@template(tags=("closure", "cell_param"))
def t_closure(rng, lvl, u):
    depth = rng.randrange(1, 5)
    lines = []
    ind = ""
    for d in range(depth):
        lines.append("%sdef cl%s_%d(p%d, q%d=%d):" % (ind, u, d, d, d, d))
        ind += "    "
        lines.append("%sloc%d = p%d + %d" % (ind, d, d, d))
    expr = " + ".join(["p%d" % d for d in range(depth)] + ["loc%d" % d for d in range(depth)])
    lines.append("%sreturn lambda z: z + %s" % (ind, expr))
    for d in range(depth - 1, 0, -1):
        ind = ind[:-4]
        lines.append("%sreturn cl%s_%d(p%d + 1)" % (ind, u, d, d - 1))
    lines.append("print(cl%s_0(1)(2))" % u)
    return "\n".join(lines)


@template(minlevel=(3, 6), py2=False, tags=("class", "super", "__class__"))
def t_class3(rng, lvl, u):
    return """class Base%(u)s:
    attr = %(n)d
    def __init__(self, x):
        self.x = x
    def get(self):
        return self.x
class Der%(u)s(Base%(u)s):
    def __init__(self, x, y=2):
        super().__init__(x)
        self.y = y
    def get(self):
        return super().get() + self.y + __class__.attr
    @staticmethod
    def st(a, *rest, k=1, **kw):
        return a + k + len(rest) + len(kw)
    @property
    def prop(self):
        return [i * self.y for i in range(3) if i != 1]
print(Der%(u)s(3).get(), Der%(u)s.st(1, 2, 3, k=4, z=5), Der%(u)s(1).prop)""" % {"u": u, "n": rng.randrange(100)}


@template(tags=("class",))
def t_class2(rng, lvl, u):
    return """class K%(u)s(object):
    a = %(n)d
    def m(self, q):
        return self.a + q
    def n(self):
        def inner(z):
            return z + self.a
        return inner(1)
print(K%(u)s().m(1) + K%(u)s().n())""" % {"u": u, "n": rng.randrange(100)}


@template(tags=("comprehension", "generator"))
def t_comp(rng, lvl, u):
    n = rng.randrange(3, 9)
    return """def comp%(u)s(n):
    a = [i * 2 for i in range(n) if i %% 2]
    b = sorted(set(i %% 3 for i in range(n)))
    c = dict((i, i * i) for i in range(n))
    d = [(i, j) for i in range(2) for j in range(i)]
    def gen():
        for k in range(n):
            if k == 1:
                continue
            yield k
    return a, b, sorted(c.items()), d, list(gen())
print(comp%(u)s(%(n)d))""" % {"u": u, "n": n}


@template(minlevel=(3, 6), py2=False, tags=("async",))
def t_async(rng, lvl, u):
    return """class ACM%(u)s:
    async def __aenter__(self):
        return 1
    async def __aexit__(self, *a):
        return False
class AIT%(u)s:
    def __init__(self):
        self.i = 0
    def __aiter__(self):
        return self
    async def __anext__(self):
        self.i += 1
        if self.i > 3:
            raise StopAsyncIteration
        return self.i
async def agen%(u)s():
    for i in range(3):
        yield i
async def co%(u)s(x):
    tot = 0
    async with ACM%(u)s() as a:
        tot += a
    async for v in AIT%(u)s():
        tot += v
    async for v in agen%(u)s():
        tot += v
    r = [q async for q in agen%(u)s()]
    return tot + x + len(r)
def run%(u)s(c):
    try:
        c.send(None)
    except StopIteration as e:
        return e.value
print(run%(u)s(co%(u)s(%(n)d)))""" % {"u": u, "n": rng.randrange(10)}


@template(tags=("try", "with", "loops"))
def t_control(rng, lvl, u):
    n = rng.randrange(2, 7)
    return """class CM%(u)s(object):
    def __enter__(self):
        return 5
    def __exit__(self, *a):
        return False
def ctl%(u)s(n):
    out = []
    for i in range(n):
        try:
            if i == 1:
                raise ValueError(i)
            elif i == 2:
                continue
            with CM%(u)s() as c:
                out.append(c + i)
        except (ValueError, KeyError) as e:
            out.append(-1)
        except Exception:
            raise
        else:
            out.append(0)
        finally:
            out.append(9)
    else:
        out.append(100)
    k = 0
    while k < n:
        k += 1
        if k == 3:
            break
    else:
        out.append(200)
    return out
print(ctl%(u)s(%(n)d))""" % {"u": u, "n": n}


@template(minlevel=(3, 10), py2=False, tags=("match",))
def t_match(rng, lvl, u):
    return """def mt%(u)s(x):
    match x:
        case 0 | 1:
            return 'small'
        case [a, b, *rest]:
            return a + b + len(rest)
        case {'k': v}:
            return v
        case str() as s if len(s) > 2:
            return s
        case (1.5 | 2.5) as f:
            return f
        case _:
            return None
print(mt%(u)s(1), mt%(u)s([1, 2, 3]), mt%(u)s({'k': 7}), mt%(u)s('abcd'), mt%(u)s(2.5), mt%(u)s(()))""" % {"u": u}


@template(minlevel=(3, 11), py2=False, tags=("except_star",))
def t_except_star(rng, lvl, u):
    return """def es%(u)s():
    out = []
    try:
        raise ExceptionGroup('g', [ValueError(1), TypeError(2)])
    except* ValueError as e:
        out.append(len(e.exceptions))
    except* TypeError as e:
        out.append(len(e.exceptions) + 10)
    return out
print(es%(u)s())""" % {"u": u}


@template(minlevel=(3, 12), py2=False, tags=("pep695",))
def t_pep695(rng, lvl, u):
    return """def gf%(u)s[T](x: T) -> T:
    return x
class GC%(u)s[T]:
    def m(self, x: T) -> T:
        return x
type Alias%(u)s = int | str
print(gf%(u)s(3), GC%(u)s().m(4), Alias%(u)s.__name__)""" % {"u": u}


@template(tags=("args",))
def t_args2(rng, lvl, u):
    return """def ar%(u)s(a, b=2, *c, **d):
    return a + b + len(c) + len(d)
print(ar%(u)s(1), ar%(u)s(1, 2, 3, 4, x=5))""" % {"u": u}


@template(minlevel=(3, 6), py2=False, tags=("args", "kwonly", "annotations"))
def t_args3(rng, lvl, u):
    po = ", /" if lvl >= (3, 8) and rng.random() < 0.7 else ""
    return """def ar3%(u)s(a, b=2%(po)s, c=3, *d, e, f=%(n)d, **g) -> int:
    x: int = a + b + c + e + f
    return x + len(d) + len(g)
print(ar3%(u)s(1, e=5), ar3%(u)s(1, 2, 3, 4, 5, e=6, f=7, z=8))""" % {"u": u, "po": po, "n": rng.randrange(10)}


@template(tags=("long_body", "long_jump"))
def t_long_body(rng, lvl, u):
    n = rng.choice([30, 90, 200, 700])
    body = ["    t = 0", "    for i in range(3):", "        if i == 5:"]
    for i in range(n):
        body.append("            t += %d" % i)
    body.append("        else:")
    body.append("            t -= 1")
    body.append("    return t")
    return "def lb%s():\n%s\nprint(lb%s())" % (u, "\n".join(body), u)


@template(tags=("line_gaps",))
def t_line_gaps(rng, lvl, u):
    out = []
    for i in range(rng.randrange(2, 6)):
        out.append("lg%s_%d = %d" % (u, i, i))
        gap = rng.choice([1, 2, 126, 127, 128, 129, 254, 255, 256, 257, 300, 1000])
        out.append("\n" * gap)
    out.append("def lgf%s():" % u)
    out.append("    a = 1")
    out.append("\n" * rng.choice([127, 128, 255, 256, 600]))
    out.append("    b = 2")
    out.append("    return a + b")
    out.append("print(lgf%s())" % u)
    return "\n".join(out)


@template(tags=("backward_lines", "multiline_expr"))
def t_backward_lines(rng, lvl, u):
    gap = rng.choice([1, 3, 130, 260])
    nl = "\n" * gap
    return """def bw%(u)s(f, g):
    return f(
        1,%(nl)s
        g(
            2,%(nl)s
            3
        ),
        [
            4,
            5 + f(6, 7)
        ]
    )
print(bw%(u)s(lambda *a: len(a), lambda *a: sum(a)))
x%(u)s = (
    1 +%(nl)s
    2 *
    3
)""" % {"u": u, "nl": nl}


@template(minlevel=(3, 6), py2=False, tags=("long_columns",))
def t_long_columns(rng, lvl, u):
    pad = " " * rng.choice([100, 126, 127, 128, 200, 300])
    return "lc%s = [1, 2, 3]\nprint(lc%s[0] + %s lc%s[1] * %s lc%s[2])" % (u, u, pad, u, pad, u)


@template(minlevel=(3, 6), py2=False, tags=("fstring",))
def t_fstring(rng, lvl, u):
    return """def fs%(u)s(a, b):
    return f'{a!r:>10} {b:{a}} %(eq)s' if a else f'{a}{b!s}{a:.2f}'
print(fs%(u)s(3, 4.5), fs%(u)s(0, 1))""" % {"u": u, "eq": "{a + b = }" if lvl >= (3, 8) else "{a + b}"}


@template(minlevel=(3, 8), py2=False, tags=("walrus",))
def t_walrus(rng, lvl, u):
    return """def wl%(u)s(data):
    if (n := len(data)) > 2:
        return n
    return [y for x in data if (y := x * 2) > 2]
print(wl%(u)s([1, 2, 3]), wl%(u)s([1, 2]))""" % {"u": u}


@template(tags=("compare", "boolops"))
def t_compare(rng, lvl, u):
    return """def cp%(u)s(a, b, c):
    r = []
    r.append(a < b <= c)
    r.append(a == b or b != c and not a)
    r.append(a in (1, 2) and b not in [3])
    r.append(a is None or b is not None)
    r.append(a > b >= c)
    r.append(a if b else c)
    try:
        raise KeyError
    except KeyError:
        r.append('k')
    return r
print(cp%(u)s(1, 2, 3))""" % {"u": u}


@template(tags=("misc",))
def t_misc(rng, lvl, u):
    return """g%(u)s = 0
def ms%(u)s(*a, **k):
    global g%(u)s
    g%(u)s += 1
    x, (y, z) = 1, (2, 3)
    x += y
    x -= z
    x *= 2
    l = [1, 2, 3, 4]
    del l[0]
    s = l[1:3] + l[::-1] + l[:1]
    d = {'a': 1, 'b': [2, 3]}
    d['c'] = d.get('a', 0)
    assert x is not None, 'msg'
    t = -x + (~y) + (not z)
    return x, s, sorted(d), t, '%%s-%%d' %% ('a', 1)
print(ms%(u)s(), g%(u)s)
print((lambda q, r=2: q ** r)(3))""" % {"u": u}


@template(minlevel=(3, 6), py2=False, tags=("nonlocal", "starunpack"))
def t_misc3(rng, lvl, u):
    return """def m3%(u)s():
    c = 0
    def inc():
        nonlocal c
        c += 1
        return c
    inc(); inc()
    a, *b, d = range(5)
    e = [*b, *[9], a]
    f = {**{'x': 1}, 'y': 2}
    return c, a, b, d, e, sorted(f)
print(m3%(u)s())""" % {"u": u}


@template(tags=("import",))
def t_import(rng, lvl, u):
    return """import math
from math import floor as fl%(u)s, ceil
print(fl%(u)s(math.sqrt(%(n)d)), ceil(1.5))""" % {"u": u, "n": rng.randrange(1, 100)}


@template(tags=("docstring",))
def t_doc(rng, lvl, u):
    return '''def dc%(u)s():
    """Doc string %(u)s
    spanning lines."""
    return dc%(u)s.__doc__.split()[0]
print(dc%(u)s())''' % {"u": u}


@template(tags=("deep_nesting",))
def t_deep(rng, lvl, u):
    depth = rng.randrange(3, 7)
    lines = []
    ind = ""
    for d in range(depth):
        lines.append("%sdef dn%s_%d():" % (ind, u, d))
        ind += "    "
        lines.append("%sv%d = %d" % (ind, d, d))
    lines.append("%sreturn %s" % (ind, " + ".join("v%d" % d for d in range(depth))))
    for d in range(depth - 1, 0, -1):
        ind = ind[:-4]
        lines.append("%sreturn dn%s_%d()" % (ind, u, d))
    lines.append("print(dn%s_0())" % u)
    return "\n".join(lines)


@template(tags=("try_nest", "exception_table"))
def t_try_nest(rng, lvl, u):
    depth = rng.randrange(2, 6)
    lines = ["def tn%s():" % u, "    r = []"]
    ind = "    "
    for d in range(depth):
        lines.append("%stry:" % ind)
        ind += "    "
        lines.append("%sr.append(%d)" % (ind, d))
    lines.append("%sraise IndexError(%d)" % (ind, depth))
    for d in range(depth - 1, -1, -1):
        ind = ind[:-4]
        if d % 2:
            lines.append("%sexcept IndexError as e:" % ind)
            lines.append("%s    r.append(-%d)" % (ind, d))
            lines.append("%s    raise" % ind)
        else:
            lines.append("%sfinally:" % ind)
            lines.append("%s    r.append(%d)" % (ind, 100 + d))
    body = "\n".join(lines)
    return body + "\n    return r\ntry:\n    print(tn%s())\nexcept IndexError:\n    print('ie')" % u


def wrap_in_function(code, u):
    ind = "\n".join("    " + ln if ln.strip() else ln for ln in code.split("\n"))
    return "def wrap%s():\n%s\nwrap%s()" % (u, ind, u)


def wrap_in_class(code, u):
    ind = "\n".join("    " + ln if ln.strip() else ln for ln in code.split("\n"))
    return "class Wrap%s(object):\n%s\n    pass" % (u, ind)



@template(tags=("zoo",), minlevel=(3, 6), py2=False)
def t_opcode_zoo(rng, lvl, u):
    """One program that reaches as many different opcodes as the level allows (every delete / store / load flavour,
    every unary, binary and in-place operator, slices, unpacking, calls with * and **, closures, classes, generators,
    coroutines, with / try / raise forms, imports, f-strings, ...)."""
    out = ["""import sys
from os import path as zp%(u)s, sep
zg%(u)s = 1
def zdel%(u)s(a, b=2, *c, d=4, **e):
    global zg%(u)s
    scratch = [a]
    def inner():
        nonlocal scratch
        scratch = scratch + [b]
        return scratch
    r = inner()
    del scratch
    zg%(u)s = 2
    del zg%(u)s
    zg%(u)s = 3
    x = {'k': 1}; del x['k']
    class O: pass
    o = O(); o.attr = 1; del o.attr
    y = 1; del y
    return r, c, d, e
def zops%(u)s(a, b):
    r = [a + b, a - b, a * b, a / b, a // b, a %% b, a ** 2, a << 1, a >> 1, a & b, a | b, a ^ b, -a, +a, ~a, not a]
    a += 1; a -= 1; a *= 2; a //= 2; a %%= 7; a **= 2; a <<= 1; a >>= 1; a &= 255; a |= 1; a ^= 3; a /= 2
    r.append(a)
    r.append(a < b <= 10 != 4)
    r.append(a is b or a is not None and b in (1, 2) and a not in [3])
    r.append(a if b else -a)
    return r
def zseq%(u)s(s):
    first, *mid, last = s
    q = s[1:3], s[::2], s[1:], s[:-1], s[1:4:2]
    s2 = list(s); s2[0] = 9; s2[1:2] = [7, 7]; s2[0] += 1
    t = (*s, *mid); l = [*s, last]; st = {*s}; d = {**{'a': 1}, 'b': first}
    return q, s2, t, l, st, d, [i for i in s if i], {i for i in s}, {i: i for i in s}, list(i for i in s)
def zcall%(u)s(f, args, kw):
    return f(*args), f(*args, **kw), f(1, *args, k=2, **kw) if False else None
def zgen%(u)s(n):
    for i in range(n):
        if i == 1:
            continue
        if i > 3:
            break
        yield i
    else:
        yield -1
    yield from range(2)
async def zco%(u)s(x):
    async with x as y:
        await y
    async for z in x:
        await z
    return [i async for i in x]
def zexc%(u)s(f):
    try:
        f()
    except (ValueError, KeyError) as e:
        raise RuntimeError('x') from e
    except OSError:
        raise
    else:
        pass
    finally:
        f = None
    with open(f) as a, open(f) as b:
        pass
    assert f, 'msg'
    while f:
        f -= 1
    else:
        f = 0
async def zag%(u)s(x):
    yield x
    while x is None or x is not None:
        x = None
        if x is None:
            yield 2
        if x is not None:
            yield 3
def zlfc%(u)s(c):
    if c:
        w = 1
    del c
    try:
        return w
    finally:
        w = 2
def zcl%(u)s(n):
    for i in range(n):
        try:
            if i:
                continue
            if i > 2:
                break
        finally:
            n = n + 0
    for j in range(n):
        try:
            pass
        finally:
            if j:
                break
    return n
def zdeco%(u)s(fn): return fn
@zdeco%(u)s
class ZC%(u)s(object, metaclass=type):
    'doc'
    cv: int = 1
    def m(self, a: int = 1, *, k: str = 's') -> int:
        return super().m() if False else self.cv
    @staticmethod
    def s(): return __class__
zl%(u)s = lambda a, b=1, *c, d=2, **e: (a, b, c, d, e)
zf%(u)s = f"{zg%(u)s!r:>10} {zg%(u)s!s} {zg%(u)s:{zg%(u)s}} {zg%(u)s!a}"
from os.path import *
zu1%(u)s, zu2%(u)s = zf%(u)s[:2]
del zu1%(u)s
def zcd%(u)s(outer):
    class K:
        inner = outer
    return K
print(zdel%(u)s(1)[0], zops%(u)s(5, 3)[:3], zseq%(u)s([1, 2, 3, 4, 5])[0], list(zgen%(u)s(6)), zl%(u)s(1), len(zf%(u)s) > 0)
""" % {"u": u}]
    if lvl >= (3, 5):
        out.append("def zmat%s(a, b):\n    a @= b\n    return a @ b" % u)
    if lvl >= (3, 8):
        out.append("zfe%s = f'{zg%s=} {zg%s = !r:^8}'" % (u, u, u))
        out.append("def zwal%s(a, /, b):\n    if (n := a + b) > 1:\n        return n\n    return [y := 1, y ** 2]" % u)
    if lvl >= (3, 10):
        out.append("def zmatch%s(p):\n    match p:\n        case [1, *r]:\n            return r\n        case {'k': v, **rest}:\n"
                   "            return v, rest\n        case ZC%s(cv=1) | str() as q:\n            return q\n        case _:\n            return None" % (u, u))
    if lvl >= (3, 11):
        out.append("def zeg%s(f):\n    try:\n        f()\n    except* ValueError as eg:\n        f = eg\n    except* TypeError:\n        raise\n    return f" % u)
    if lvl >= (3, 13):
        out.append("def zpd%s[T = int](x: T) -> T:\n    return x\nclass ZPD%s[T = int, *Ts = *tuple[int, ...], **P = [int]]:\n    pass\n"
                   "type ZAD%s[T = str] = list[T]" % (u, u, u))
    if lvl >= (3, 12):
        out.append("type ZA%s[T] = list[T]\ndef zgf%s[T: int](x: T) -> T:\n    return x\nclass ZG%s[T]:\n    def m(self) -> T: ...\n"
                   "def zsup%s():\n    class D(ZC%s):\n        def m(self):\n            return super().m(), super().cv\n    return D" % (u, u, u, u, u))
    return "\n".join(out)


@template(tags=("zoo",), py2=True)
def t_opcode_zoo2(rng, lvl, u):
    """Python 2 counterpart of t_opcode_zoo (print forms, exec, backticks, old slices, tuple parameters, raise forms)."""
    if lvl >= (3, 0):
        return "zz%s = 1" % u
    return """import sys
from os import *
from os import path as zp%(u)s
zg%(u)s = 1
def zops%(u)s(a, b):
    r = [a + b, a - b, a * b, a / b, a // b, a %% b, a ** 2, a << 1, a >> 1, a & b, a | b, a ^ b, -a, +a, ~a, not a, `a`]
    a += 1; a -= 1; a *= 2; a //= 2; a %%= 7; a **= 2; a <<= 1; a >>= 1; a &= 255; a |= 1; a ^= 3; a /= 2
    r.append(a < b <= 10 != 4 <> 5)
    r.append(a is b or a is not None and b in (1, 2) and a not in [3])
    r.append(a if b else -a)
    return r
def zseq%(u)s(s, (p, q)=(1, 2)):
    s2 = list(s)
    x = s2[:], s2[1:], s2[:2], s2[1:2], s2[::2]
    s2[:] = s2; s2[1:] = s2[1:]; s2[:1] = s2[:1]; s2[1:2] = [7]
    del s2[0:1]; del s2[:]; s2 = list(s); del s2[1:]; del s2[:1]
    s2 = list(s); s2[0] += 1; s2[0:1] += [1]
    return x, s2, [i for i in s if i], dict((i, i) for i in s), {i for i in s}, {i: i for i in s}
def zprint%(u)s(f):
    print >>f, 'a', 'b',
    print >>f
    print 'x',
    exec 'zq = 1' in {}
    exec 'zq = 2'
def zexc%(u)s(f):
    try:
        f()
    except (ValueError, KeyError), e:
        raise RuntimeError, 'x'
    except OSError:
        raise
    else:
        pass
    finally:
        f = None
    with open(f) as a:
        pass
    assert f, 'msg'
    while f:
        f -= 1
        if f == 3: continue
        if f == 1: break
    else:
        f = 0
def zgen%(u)s(n):
    for i in xrange(n):
        try:
            if i == 1:
                continue
        finally:
            pass
        yield i
def zcall%(u)s(f, args, kw):
    return f(*args), f(**kw), f(*args, **kw), f(1, k=2, *args, **kw)
def zdel%(u)s(a):
    global zg%(u)s
    y = 1; del y
    zg%(u)s = 2; del zg%(u)s; zg%(u)s = 3
    x = {'k': 1}; del x['k']
    class O: pass
    o = O(); o.attr = 1; del o.attr
    def inner(): return a
    return inner
class ZC%(u)s(object):
    'doc'
    __metaclass__ = type
    def m(self): return super(ZC%(u)s, self)
zl%(u)s = lambda a, b=1, *c, **e: (a, b, c, e)
zu1%(u)s, zu2%(u)s = 'ab'
del zu1%(u)s
def zsd%(u)s(a):
    def inner(): return a
    a = a + 1
    return inner
print zops%(u)s(5, 3)[:3], zl%(u)s(1)
""" % {"u": u}


NO_WRAP = {"t_big_try", "t_big_literal", "t_eq_tuples_a", "t_eq_tuples_b", "t_new_unicode", "t_ext_jumps", "t_opcode_zoo", "t_opcode_zoo2", "t_py2_raise", "t_ext_edges", "t_shared_frozenset", "t_shared_big_tuple", "t_many_names", "t_misc", "t_import", "t_pep695", "t_line_gaps"}
NO_CLASS_WRAP = NO_WRAP | {"t_long_loop", "t_class3", "t_closure", "t_shared", "t_class2", "t_async", "t_control", "t_deep",
                           "t_backward_lines", "t_long_columns", "t_py2_long", "t_ints", "t_floats", "t_complex",
                           "t_strings", "t_bytes", "t_comp", "t_misc3", "t_try_nest", "t_match", "t_except_star",
                           "t_args2", "t_args3", "t_long_body", "t_fstring", "t_walrus", "t_compare", "t_doc",
                           "t_many_consts", "t_many_locals", "t_containers"}


def eligible(lvl):
    out = []
    for t in TEMPLATES:
        if lvl < (3, 0):
            if not t["py2"]:
                continue
        elif lvl < t["min"]:
            continue
        out.append(t)
    return out


def gen_program(seed, lvl, n_snippets=None, focus=None):
    """Return (source_text, [tags requested])."""
    rng = random.Random("prog|%s|%s" % (seed, lvl))
    pool = eligible(lvl)
    if focus:
        fpool = [t for t in pool if set(t["tags"]) & set(focus)]
        if fpool:
            pool = fpool * 3 + pool
    k = n_snippets or rng.randrange(2, 8)
    parts = []
    tags = []
    if lvl < (3, 0) and rng.random() < 0.3:
        parts.append("# -*- coding: utf-8 -*-")
    for i in range(k):
        t = rng.choice(pool)
        u = "%s%d" % (chr(ord("a") + i % 26), rng.randrange(100))
        code = t["fn"](rng, lvl, u)
        r = rng.random()
        if t["name"] not in NO_WRAP and r < 0.25:
            code = wrap_in_function(code, u)
        elif t["name"] not in NO_CLASS_WRAP and r < 0.35:
            code = wrap_in_class(code, u)
        parts.append(code)
        parts.append("\n" * rng.choice([0, 0, 1, 2, 5]))
        tags.extend(t["tags"])
    return "\n".join(parts) + "\n", sorted(set(tags))


def gen_single(seed, lvl, template_name):
    """A program made of exactly one named template (used where a workload must contain a given feature)."""
    rng = random.Random("single|%s|%s|%s" % (seed, lvl, template_name))
    for t in eligible(lvl):
        if t["name"] == template_name:
            return t["fn"](rng, lvl, "s%d" % rng.randrange(100)) + "\n", list(t["tags"])
    return None, []


if __name__ == "__main__":
    import sys

    lvl = tuple(int(x) for x in sys.argv[1].split("."))
    src, tags = gen_program(int(sys.argv[2]), lvl)
    sys.stdout.write(src)
