"""File differential pipeline (DESIGN.md s7d.1): sources / pyc files ->
reference interpreter V (truth.py) -> host H with xdis (agent.py diff) ->
merged Result.  Used by C01-C05 and C17."""
import os
import shutil

from . import common as K
from .gen import programs as G


def corpus_by_version():
    """Corpus files whose version has a reference interpreter, keyed by (major, minor)."""
    out = {}
    t = os.path.join(K.REPO, "test")
    for d in sorted(os.listdir(t)):
        if not d.startswith("bytecode_"):
            continue
        tag = d[len("bytecode_"):]
        try:
            v = tuple(int(x) for x in tag.split("."))
        except ValueError:
            continue
        if v in K.INTERPS:
            for f in sorted(os.listdir(os.path.join(t, d))):
                if f.endswith(".pyc") or f.endswith(".pyo"):
                    out.setdefault(v, []).append(os.path.join(t, d, f))
    return out


def build_batches(scratch, versions, tier, rng_tag, n_stdlib, n_gen, batch=25, focus=None, with_corpus=True,
                  gen_snippets=None, must_templates=()):
    """Return list of batch dicts: {v, items, mode, workdir, tag}."""
    batches = []
    corp = corpus_by_version() if with_corpus else {}
    for v in versions:
        rng = K.rng_for(rng_tag, v)
        wd = scratch.sub("v%d%d" % v)
        items = []
        # P: the interpreter's own standard library, compiled by itself
        for i, src in enumerate(K.list_stdlib(v, rng, limit=n_stdlib)):
            items.append({"src": src, "pyc": os.path.join(wd, "p%05d.pyc" % i),
                          "optimize": rng.choice([-1, -1, 0, 1, 2]) if v >= (3, 0) else -1})
        # G: generated programs at this syntax level
        for i in range(n_gen):
            src_text, tags = G.gen_program("%s-%d" % (K.get_seed(), i), v, n_snippets=gen_snippets, focus=focus)
            sp = os.path.join(wd, "g%05d.py" % i)
            with open(sp, "w", encoding="utf-8", errors="surrogatepass") as f:
                f.write(src_text)
            it = {"src": sp, "pyc": os.path.join(wd, "g%05d.pyc" % i), "filename": "gen%05d.py" % i, "tags": tags}
            if v >= (3, 7) and i % 4 == 1:
                it["pyc_flags"] = 1 if i % 8 == 1 else 3  # PEP 552 hash-based file (unchecked / checked)
            elif i % 4 == 2:
                it["mtime"] = rng.choice([0, 1, 0x7FFFFFFF, 0x80000000, 0xFFFFFFFF, 1700000000])
            elif i % 4 == 3:
                it["inline_dumps"] = True  # top-level code object not flagged in the reference table
            items.append(it)
        # programs that must be present whatever the seed: one per named feature template
        for j, tname in enumerate(must_templates):
            src_text, tags = G.gen_single(K.get_seed(), v, tname)
            if src_text is None:
                continue
            sp = os.path.join(wd, "m%03d_%s.py" % (j, tname))
            with open(sp, "w", encoding="utf-8", errors="surrogatepass") as f:
                f.write(src_text)
            # every other must-have program gets a non-ASCII file name (co_filename is text in 3.x, UTF-8 bytes in 2.x)
            fname = ("must_%s.py" if j % 2 else "m\u00fcst_\u4e2d_%s.py") % tname
            items.append({"src": sp, "pyc": sp + "c", "filename": fname, "tags": tags})
        rng.shuffle(items)
        for bi, chunk in enumerate(K.chunks(items, batch)):
            batches.append({"v": v, "items": chunk, "mode": "compile", "workdir": wd, "tag": "b%d" % bi})
        # corpus files of this version (real historical files): V loads them itself
        citems = []
        for i, p in enumerate(corp.get(v, [])):
            cp = os.path.join(wd, "c%05d.pyc" % i)
            shutil.copyfile(p, cp)
            citems.append({"src": p, "pyc": cp})
        for bi, chunk in enumerate(K.chunks(citems, 40)):
            batches.append({"v": v, "items": chunk, "mode": "loadpyc", "workdir": wd, "tag": "c%d" % bi})
    return batches


def run_batch(b, sections, props, host, max_code, result_sink, extra_agent_args=None, keep=False):
    v = b["v"]
    targs = {"items": b["items"], "sections": sections, "mode": b["mode"]}
    cmd = b.get("truth_cmd", "compile")
    tf, err = K.run_truth(v, cmd, targs, b["workdir"], b["tag"])
    if tf is None:
        return {"error": "truth %s %s: %s" % (K.vstr(v), b["tag"], err)}
    aargs = {"truth": tf, "props": props, "max_code": max_code, "seed": K.get_seed()}
    if extra_agent_args:
        aargs.update(extra_agent_args)
    res, aerr, so, se = K.run_agent(host, "diff", aargs, b["workdir"], b["tag"] + "-h%d%d" % host)
    if not keep:
        try:
            os.unlink(tf)
        except OSError:
            pass
    if res is None:
        return {"error": "agent %s %s: %s" % (K.vstr(v), b["tag"], aerr)}
    if err:
        res.setdefault("counters", {})["truth_partial"] = 1
    return res


def run_diff(result, batches, sections, props, host_for=None, max_code=1 << 30, extra_agent_args=None):
    """Run all batches in parallel and merge into `result`."""
    hosts = sorted(K.available_hosts())
    for i, b in enumerate(batches):
        # host dimension: every other batch runs on the main 3.12 host, the rest rotate over all hosts able to
        # import the package (a file of the host's own version then also takes the native fast path there)
        b["host"] = (host_for(b["v"]) if host_for else K.MAIN_HOST) if i % 2 == 0 else hosts[(i // 2) % len(hosts)]

    def job(b):
        return run_batch(b, sections, props, b["host"], max_code, result, extra_agent_args)

    outs = K.pmap(job, batches)
    for b, o in zip(batches, outs):
        if "error" in o:
            result.inconclusive.append(o["error"][:300])
            continue
        result.merge_agent(o)
        result.count("batches")
        result.count("files_v" + K.vstr(b["v"]), o.get("counters", {}).get("files", 0))
        result.count("files_on_host_" + K.vstr(b["host"]), o.get("counters", {}).get("files", 0))


def default_host_for(v):
    """Host that exercises the portable unmarshaller for files of version v:
    the main 3.12 host, except for 3.12 files (native fast path there), which
    additionally go through load_code directly inside the agent."""
    return K.MAIN_HOST


def corpus_invariants(result, scratch, props, tier):
    """Reference-free invariants over the whole historical corpus (all versions, incl. those without an installed
    interpreter) - the weaker coverage bucket of DESIGN.md s3.  For C05, pre-3.6 co_lnotab tables are additionally judged by
    the 2.7 interpreter (format-equivalent reference)."""
    items = []
    for p in K.corpus_files():
        vtag = os.path.basename(os.path.dirname(p)).replace("bytecode_", "")
        if "dropbox" in vtag:
            continue
        items.append({"pyc": p, "label": "corpus/" + vtag + "/" + os.path.basename(p), "vtag": vtag})
    chunks = list(K.chunks(items, 20))

    def job(ci):
        i, ch = ci
        return K.run_agent(K.MAIN_HOST, "corpusinv", {"files": ch, "props": props}, scratch.root, "cinv%d" % i, timeout=1800)

    tables = []
    for out, err, so, se in K.pmap(job, list(enumerate(chunks))):
        if out is None:
            result.inconclusive.append("corpus invariants: %s" % err)
            continue
        tables += out.pop("lnotabs", [])
        ev = out.get("evaluations", 0)
        result.merge_agent(out)
        result.count("corpus_invariant_evaluations", ev)
    result.count("corpus_files", len(items))
    if "C05" in props and tables and (2, 7) in K.available_interps():
        tf, err = K.run_truth((2, 7), "linetab", {"items": [{"code_len": t["code_len"], "firstlineno": t["firstlineno"], "table": t["table"]}
                                                           for t in tables]}, scratch.root, "corpus-lnotab", timeout=1200)
        if tf is None:
            result.inconclusive.append("2.7 lnotab reference: %s" % err)
        else:
            for t, r in zip(tables, K.read_jsonl(tf)):
                if not r.get("ok"):
                    result.count("c05_lnotab_reference_rejected")
                    continue
                result.evaluations += 1
                result.count("c05_format_equivalent_lnotab_checks")
                if [list(x) for x in r["linestarts"]] != t["xdis"]:
                    result.mismatches.append({"key": "C05|corpus|lnotab-vs-2.7-reader|v%s" % t["vtag"],
                                              "detail": {"file": t["label"], "path": t["path"], "expected": r["linestarts"][:10],
                                                         "observed": t["xdis"][:10]}})


def synthetic_code_batches(scratch, versions, n_per_version, rng_tag):
    """Workload B: batches whose files are built by V itself (truth.py mkcode) from synthetic co_code bytes."""
    import binascii

    from .gen import codebytes as CB

    batches = []
    for v in versions:
        wd = scratch.sub("b%d%d" % v)
        tf, err = K.run_truth(v, "tables", {}, wd, "tables")
        if tf is None:
            continue
        tables = K.read_jsonl(tf)[0]
        rng = K.rng_for(rng_tag, "B", v)
        items = []
        for i in range(n_per_version):
            # whatever the seed: one jump over 70 000 instructions (target >= 65536: EXTENDED_ARG on the jump) and one over 300
            code, desc = CB.make_code(rng, v, tables, force_sled={0: 70000, 1: 300}.get(i))
            if i == 2:
                code, desc = b"", "empty"  # a code object without instructions: dis yields nothing
            kind = "s" if v < (3, 0) else "B"
            items.append({"pyc": os.path.join(wd, "syn%05d.pyc" % i), "tag": "synthetic-code/%s/%s" % (K.vstr(v), desc[:80]),
                          "fields": {"co_code": [kind, binascii.hexlify(code).decode()], "co_stacksize": ["i", "a"]}})
        for bi, chunk in enumerate(K.chunks(items, 60)):
            batches.append({"v": v, "items": chunk, "mode": "mkcode", "truth_cmd": "mkcode", "workdir": wd, "tag": "syn%d" % bi})
    return batches


def synthetic_table_batches(scratch, versions, n_per_version, rng_tag):
    """Workload L: line / location / exception tables installed in a code object by V itself (truth.py mkcode)."""
    import binascii

    from .gen import linetables as LT

    def hx(b):
        return binascii.hexlify(b).decode()

    batches = []
    for v in versions:
        wd = scratch.sub("l%d%d" % v)
        rng = K.rng_for(rng_tag, "L", v)
        items = []
        kind = "s" if v < (3, 0) else "B"
        for i in range(n_per_version):
            fl = rng.choice([1, 1, 7, 1000, 70000])
            fields = {"co_firstlineno": ["i", "%x" % fl], "co_stacksize": ["i", "4"]}
            if v >= (3, 11):
                loc, units = LT.locations311(rng, fl)
                fields["co_linetable"] = [kind, hx(loc)]
                fields["co_exceptiontable"] = [kind, hx(LT.exctable(rng, units))]
                fields["co_code"] = [kind, hx(bytes([9, 0] * units))]
                tag = "synthetic-locations"
            elif v >= (3, 10):
                tab, n = LT.linetable310(rng, fl)
                fields["co_linetable"] = [kind, hx(tab)]
                fields["co_code"] = [kind, hx(bytes([9, 0] * (n // 2)))]
                tag = "synthetic-linetable310"
            else:
                tab, n = LT.lnotab(rng, v, rng.choice([2, 10, 40, 300]), fl)
                fields["co_lnotab"] = [kind, hx(tab)]
                fields["co_code"] = [kind, hx(bytes([9, 0] * (n // 2)) if v >= (3, 6) else bytes([9] * n))]
                tag = "synthetic-lnotab"
            items.append({"pyc": os.path.join(wd, "tab%05d.pyc" % i), "tag": "%s/%s/%d" % (tag, K.vstr(v), i), "fields": fields})
        for bi, chunk in enumerate(K.chunks(items, 80)):
            batches.append({"v": v, "items": chunk, "mode": "mkcode", "truth_cmd": "mkcode", "workdir": wd, "tag": "tab%d" % bi})
    return batches


def synthetic_bigtable_batches(scratch, versions, rng_tag):
    """Workload T: one code object per version with 66 000 constants and 66 000 names, indexed at the boundary operands
    (built by V itself, truth.py mkcode; V's dis names the constant / name each operand resolves to)."""
    import binascii

    from .gen import codebytes as CB

    n = 66000
    consts = ["t", [["i", "%x" % (i + 1000)] for i in range(n)]]
    names = ["t", [["u", "n%d" % i] for i in range(n)]]
    batches = []
    for v in versions:
        wd = scratch.sub("t%d%d" % v)
        tf, err = K.run_truth(v, "tables", {}, wd, "tables")
        if tf is None:
            continue
        tables = K.read_jsonl(tf)[0]
        code = CB.make_big_table_code(v, tables)
        kind = "s" if v < (3, 0) else "B"
        item = {"pyc": os.path.join(wd, "bigtab.pyc"), "tag": "synthetic-big-tables/%s" % K.vstr(v),
                "fields": {"co_code": [kind, binascii.hexlify(code).decode()], "co_stacksize": ["i", "a"],
                           "co_consts": consts, "co_names": names}}
        batches.append({"v": v, "items": [item], "mode": "mkcode", "truth_cmd": "mkcode", "workdir": wd, "tag": "bigtab"})
    return batches
