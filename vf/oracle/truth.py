# -*- coding: utf-8 -*-
"""Reference-side dump script.

Runs INSIDE a reference interpreter V (valid Python 2.7 and 3.6 .. 3.13) and
imports nothing from the repository under test.  It reports what V itself says
about bytes / code objects as JSON lines, so that the monitors can compare the
result of xdis on the same bytes.

Usage:  python truth.py <subcommand> <json-args-file> <out-file>

Every sub-command reads one JSON document (its arguments) and writes JSON
lines to <out-file>.
"""
from __future__ import print_function

import binascii
import json
import marshal
import os
import struct
import sys
import types

PY2 = sys.version_info[0] == 2
PYV = tuple(sys.version_info[:2])

if PY2:
    text_type = unicode  # noqa: F821
    long_type = long  # noqa: F821
    int_types = (int, long)  # noqa: F821
else:
    text_type = str
    long_type = int
    int_types = (int,)

CODE_TYPE = types.CodeType
HASH_LIMIT = 400


def hexs(b):
    if not PY2 and isinstance(b, str):
        b = b.encode("latin-1")
    return binascii.hexlify(bytes(b)).decode("ascii")


def ihex(n):
    """Ints travel as signed hexadecimal text: decimal conversion of huge ints is refused by Python 3.11+."""
    return ("-%x" % -n) if n < 0 else ("%x" % n)


def fbits(x):
    return hexs(struct.pack(">d", x))


def canon_text(s):
    # a list of code points keeps lone surrogates and astral characters exact
    simple = True
    for ch in s:
        o = ord(ch)
        if o < 0x20 or o > 0x7E:
            simple = False
            break
    if simple:
        return ["u", s if not PY2 else s.encode("ascii").decode("ascii")]
    return ["U", [ord(ch) for ch in s]]


def sort_key(c):
    return json.dumps(c, sort_keys=True)


def canon(v, code_mode="full"):
    """Kind-tagged canonical form of a marshalable value (see DESIGN.md s6)."""
    if v is None:
        return ["N"]
    if v is True:
        return ["b", 1]
    if v is False:
        return ["b", 0]
    if v is Ellipsis:
        return ["E"]
    if v is StopIteration:
        return ["S"]
    t = type(v)
    if PY2 and t is long_type:
        return ["l", ihex(v)]
    if isinstance(v, int_types):
        return ["i", ihex(v)]
    if t is float:
        return ["f", fbits(v)]
    if t is complex:
        return ["c", fbits(v.real), fbits(v.imag)]
    if PY2 and t is str:
        return ["s", hexs(v)]
    if not PY2 and t is bytes:
        return ["B", hexs(v)]
    if t is text_type:
        return canon_text(v)
    if t is tuple:
        return ["t", [canon(x, code_mode) for x in v]]
    if t is list:
        return ["L", [canon(x, code_mode) for x in v]]
    if t is frozenset:
        return ["F", sorted([canon(x, code_mode) for x in v], key=sort_key)]
    if t is set:
        return ["Z", sorted([canon(x, code_mode) for x in v], key=sort_key)]
    if t is dict:
        return [
            "D",
            sorted(
                [[canon(k, code_mode), canon(x, code_mode)] for k, x in v.items()],
                key=sort_key,
            ),
        ]
    if t is CODE_TYPE:
        if code_mode == "ref":
            return ["C", canon(v.co_name, "ref"), v.co_firstlineno]
        return ["C", canon_code(v)]
    return ["?", repr(t)]


def short(c):
    """Replace a large canonical value by its digest (same rule on both sides)."""
    s = json.dumps(c, sort_keys=True)
    if len(s) > HASH_LIMIT:
        import hashlib

        return ["#", hashlib.sha1(s.encode("utf-8")).hexdigest()]
    return c


def code_fields():
    f = ["co_argcount"]
    if PYV >= (3, 8):
        f.append("co_posonlyargcount")
    if PYV >= (3, 0):
        f.append("co_kwonlyargcount")
    f += [
        "co_nlocals",
        "co_stacksize",
        "co_flags",
        "co_code",
        "co_consts",
        "co_names",
        "co_varnames",
        "co_freevars",
        "co_cellvars",
        "co_filename",
        "co_name",
    ]
    if PYV >= (3, 11):
        f.append("co_qualname")
    f.append("co_firstlineno")
    if PYV >= (3, 10):
        f.append("co_linetable")
    else:
        f.append("co_lnotab")
    if PYV >= (3, 11):
        f.append("co_exceptiontable")
    return f


CODE_FIELDS = code_fields()


def canon_code(co):
    d = {}
    for f in CODE_FIELDS:
        d[f] = canon(getattr(co, f), "full")
    return d


def walk_code(co, path="0"):
    """Yield (path, code) in a fixed order: the object, then code constants in
    co_consts order, depth first."""
    yield path, co
    for i, c in enumerate(co.co_consts):
        if type(c) is CODE_TYPE:
            for x in walk_code(c, path + "." + str(i)):
                yield x


# --------------------------------------------------------------------------
# dis views


def exc_entries(co):
    if PYV < (3, 11):
        return None
    import dis

    out = []
    for e in dis._parse_exception_table(co):
        out.append([e.start, e.end, e.target, e.depth, bool(e.lasti)])
    return out


def inst_view_py3(co):
    import dis
    import opcode

    kw = {}
    if (3, 11) <= PYV <= (3, 12):
        kw["show_caches"] = True
    hasarg = None
    if PYV >= (3, 12):
        hasarg = set(opcode.hasarg)
    tbl = (
        set(opcode.hasconst)
        | set(opcode.hasname)
        | set(opcode.haslocal)
        | set(opcode.hasfree)
        | set(opcode.hascompare)
    )
    jumps = set(opcode.hasjrel) | set(opcode.hasjabs)
    out = []
    for ins in dis.get_instructions(co, **kw):
        op = ins.opcode
        if hasarg is not None:
            takes = op in hasarg
        else:
            takes = op >= opcode.HAVE_ARGUMENT
        if PYV >= (3, 13):
            line = ins.line_number if ins.starts_line else None
        else:
            line = ins.starts_line
        kind = None
        av = None
        if op in jumps:
            kind = "j"
            av = ins.argval
        elif op in tbl and ins.opname != "CACHE":
            kind = "t"
            av = short(canon(ins.argval, "ref"))
        out.append(
            [
                ins.offset,
                op,
                ins.opname,
                ins.arg if takes else None,
                kind,
                av,
                bool(ins.is_jump_target),
                line,
            ]
        )
    return out


_DIS27_RE = None


def inst_view_py2(co):
    """2.7 has no get_instructions: decode with the interpreter's own opcode
    tables, then cross-check against the text dis.disassemble prints (its only
    public view).  A disagreement marks the record unusable."""
    import dis
    import opcode
    import re

    try:
        from cStringIO import StringIO
    except ImportError:
        from io import StringIO

    code = co.co_code
    n = len(code)
    labels = set(dis.findlabels(code))
    linestarts = dict(dis.findlinestarts(co))
    i = 0
    ext = 0
    free = None
    out = []
    while i < n:
        off = i
        op = ord(code[i])
        i += 1
        arg = None
        kind = None
        av = None
        if op >= opcode.HAVE_ARGUMENT:
            arg = ord(code[i]) + ord(code[i + 1]) * 256 + ext
            ext = 0
            i += 2
            if op == opcode.EXTENDED_ARG:
                ext = arg * 65536
            if op in opcode.hasconst:
                kind, av = "t", short(canon(co.co_consts[arg], "ref"))
            elif op in opcode.hasname:
                kind, av = "t", short(canon(co.co_names[arg], "ref"))
            elif op in opcode.hasjrel:
                kind, av = "j", i + arg
            elif op in opcode.hasjabs:
                kind, av = "j", arg
            elif op in opcode.haslocal:
                kind, av = "t", short(canon(co.co_varnames[arg], "ref"))
            elif op in opcode.hascompare:
                kind, av = "t", short(canon(opcode.cmp_op[arg], "ref"))
            elif op in opcode.hasfree:
                if free is None:
                    free = co.co_cellvars + co.co_freevars
                kind, av = "t", short(canon(free[arg], "ref"))
        out.append(
            [off, op, opcode.opname[op], arg, kind, av, off in labels, linestarts.get(off)]
        )
    # 2.7's dis.findlabels ignores EXTENDED_ARG (the interpreter and dis.disassemble's operand
    # column do not): where they differ, the jump targets decoded above are the reference.
    real_labels = set(r[5] for r in out if r[4] == "j")
    check_marks = real_labels == labels
    if not check_marks:
        for r in out:
            r[6] = r[0] in real_labels

    # cross-check with the printed listing
    global _DIS27_RE
    if _DIS27_RE is None:
        _DIS27_RE = re.compile(
            r"^\s*(?:(\d+)\s+)?(?:-->\s+)?(?:(>>)\s+)?(\d+) ([A-Z_+0-9<>a-z]+)(?:\s+(\d+)L?(?: \((.*)\))?)?\s*$"
        )
    buf = StringIO()
    old = sys.stdout
    sys.stdout = buf
    try:
        dis.disassemble(co)
    finally:
        sys.stdout = old
    k = 0
    ok = True
    for ln in buf.getvalue().split("\n"):
        if not ln.strip():
            continue
        m = _DIS27_RE.match(ln)
        if not m or k >= len(out):
            ok = False
            break
        line, jt, off, name, arg, _rep = m.groups()
        rec = out[k]
        k += 1
        if (
            int(off) != rec[0]
            or name != rec[2]
            or (arg is not None and int(arg) != rec[3])
            or (arg is None) != (rec[3] is None)
            or (check_marks and bool(jt) != rec[6])
            or (int(line) if line else None) != rec[7]
        ):
            ok = False
            break
    if k != len(out):
        ok = False
    return out if ok else None


def inst_view(co):
    if PY2:
        return inst_view_py2(co)
    return inst_view_py3(co)


def labels_view(co):
    import dis

    if PY2:
        # see inst_view_py2: dis.findlabels of 2.7 drops EXTENDED_ARG
        v = inst_view_py2(co)
        if v is not None:
            return sorted(set(r[5] for r in v if r[4] == "j"))
    return sorted(set(dis.findlabels(co.co_code)))


def linestarts_view(co):
    import dis

    return [[a, b] for a, b in dis.findlinestarts(co)]


def colines_view(co):
    if PYV < (3, 10):
        return None
    return [[a, b, c] for a, b, c in co.co_lines()]


def copositions_view(co):
    if PYV < (3, 11):
        return None
    return [list(p) for p in co.co_positions()]


def header_len():
    if PYV >= (3, 7):
        return 16
    if PYV >= (3, 3):
        return 12
    return 8


def code_record(path, co, sections):
    rec = {"path": path, "name": canon(co.co_name, "ref"), "ncode": len(co.co_code)}
    if "canon" in sections:
        rec["fields"] = canon_code_shallow(co)
    if "dis" in sections:
        rec["inst"] = inst_view(co)
        rec["inst_ok"] = rec["inst"] is not None
    if "labels" in sections:
        rec["labels"] = labels_view(co)
        rec["exc"] = exc_entries(co)
    if "lines" in sections:
        rec["linestarts"] = linestarts_view(co)
        rec["colines"] = colines_view(co)
        rec["firstlineno"] = co.co_firstlineno
    if "pos" in sections:
        rec["copositions"] = copositions_view(co)
        rec["colines"] = colines_view(co)
        rec["exc"] = exc_entries(co)
    return rec


def canon_code_shallow(co):
    """Per-code-object fields; nested code constants appear as references so
    that each object is compared once, at its own path."""
    d = {}
    for f in CODE_FIELDS:
        d[f] = canon(getattr(co, f), "ref")
    return d


def magic_bytes():
    if PY2:
        import imp

        return imp.get_magic()
    import importlib.util

    return importlib.util.MAGIC_NUMBER


# --------------------------------------------------------------------------
# sub-commands


def write_pyc(co, out, mtime=0, size=0, flags=0, src=b"", marshal_version=None):
    if marshal_version is not None:
        # an older marshal format version of the same interpreter (e.g. 1: text floats, interned strings)
        _dumps = marshal.dumps
        marshal_dumps = lambda c: _dumps(c, marshal_version)  # noqa: E731
    else:
        marshal_dumps = marshal.dumps
    with open(out, "wb") as f:
        f.write(magic_bytes())
        if PYV >= (3, 7) and flags & 1:
            # PEP 552 hash-based file: flag word, then the 8-byte source hash
            import importlib.util

            f.write(struct.pack("<I", flags))
            f.write(importlib.util.source_hash(src))
            f.write(marshal_dumps(co))
            return
        if PYV >= (3, 7):
            f.write(struct.pack("<I", 0))
        f.write(struct.pack("<I", mtime & 0xFFFFFFFF))
        if PYV >= (3, 3):
            f.write(struct.pack("<I", size & 0xFFFFFFFF))
        f.write(marshal_dumps(co))


def consumed_length(payload):
    """How many bytes V's marshal.load consumes from the payload."""
    if PY2:
        # marshal.load on a real file reads exactly one object in 2.7? It may
        # read ahead; use loads on growing prefixes is too slow.  dumps(loads)
        # is not byte-identical in general.  Use the file API with tell().
        import tempfile

        fd, p = tempfile.mkstemp()
        try:
            os.write(fd, payload)
            os.close(fd)
            f = open(p, "rb")
            marshal.load(f)
            pos = f.tell()
            f.close()
            return pos
        finally:
            os.unlink(p)
    import io

    class R(object):
        # marshal.load only needs .read / .readinto; count what it consumes
        def __init__(self, b):
            self.b = io.BytesIO(b)

        def read(self, n):
            return self.b.read(n)

        def readinto(self, buf):
            return self.b.readinto(buf)

    r = R(payload)
    marshal.load(r)
    return r.b.tell()


def cmd_compile(args, out):
    """args: {"items": [{"src": path, "pyc": path, "optimize": int}], "sections": [...],
              "mode": "compile" | "loadpyc"}"""
    sections = set(args.get("sections", ["canon"]))
    import opcode

    out.write(
        json.dumps(
            {
                "kind": "header",
                "version": list(sys.version_info[:3]),
                "opname": list(opcode.opname),
                "magic": hexs(magic_bytes()),
                "header_len": header_len(),
            }
        )
        + "\n"
    )
    for it in args["items"]:
        rec = {"kind": "file", "src": it.get("src"), "pyc": it["pyc"]}
        try:
            if args.get("mode") == "loadpyc":
                with open(it["pyc"], "rb") as f:
                    data = f.read()
                hl = it.get("header_len", header_len())
                co = marshal.loads(data[hl:])
            else:
                with open(it["src"], "rb") as f:
                    src = f.read()
                import warnings

                fname = it.get("filename", it["src"])
                if PY2 and isinstance(fname, text_type):
                    fname = fname.encode("utf-8")
                with warnings.catch_warnings():
                    warnings.simplefilter("ignore")
                    if PY2:
                        co = compile(src, fname, "exec", 0, True)  # dont_inherit: not this script's own __future__ flags
                    else:
                        co = compile(
                            src,
                            fname,
                            "exec",
                            dont_inherit=True,
                            optimize=it.get("optimize", -1),
                        )
                if it.get("inline_dumps"):
                    # marshal the code object while nothing else refers to it: its reference count is then 1, marshal does not
                    # flag it, and the first slot of the reference table goes to some later object (what a third-party
                    # writer produces with marshal.dumps(compile(...)))
                    del co
                    if PY2:
                        payload = marshal.dumps(compile(src, fname, "exec", 0, True))
                    else:
                        payload = marshal.dumps(compile(src, fname, "exec", dont_inherit=True, optimize=it.get("optimize", -1)))
                    co = marshal.loads(payload)
                    with open(it["pyc"], "wb") as f:
                        f.write(magic_bytes())
                        if PYV >= (3, 7):
                            f.write(struct.pack("<I", 0))
                        f.write(struct.pack("<I", 1))
                        if PYV >= (3, 3):
                            f.write(struct.pack("<I", len(src) & 0xFFFFFFFF))
                        f.write(payload)
                else:
                  write_pyc(co, it["pyc"], it.get("mtime", 0), len(src), it.get("pyc_flags", 0),
                            src if isinstance(src, bytes) else src.encode("utf-8", "surrogatepass"), it.get("marshal_version"))
            with open(it["pyc"], "rb") as f:
                data = f.read()
            hl = it.get("header_len", header_len())
            payload = data[hl:]
            # the oracle is what marshal gives back from the file bytes
            co = marshal.loads(payload)
            rec["payload_len"] = len(payload)
            if "consumed" in sections:
                rec["consumed"] = consumed_length(payload)
            rec["ok"] = True
        except (SyntaxError, ValueError, TypeError, OverflowError, MemoryError, RecursionError if not PY2 else RuntimeError, EOFError) as e:
            rec["ok"] = False
            rec["error"] = type(e).__name__ + ": " + str(e)[:200]
            out.write(json.dumps(rec) + "\n")
            continue
        out.write(json.dumps(rec) + "\n")
        for path, c in walk_code(co):
            try:
                cr = code_record(path, c, sections)
            except Exception as e:  # oracle failure: not usable, never a verdict
                cr = {"path": path, "oracle_error": type(e).__name__ + ": " + str(e)[:200]}
            cr["kind"] = "code"
            out.write(json.dumps(cr) + "\n")
        out.write(json.dumps({"kind": "endfile"}) + "\n")


def cmd_tables(args, out):
    import dis
    import opcode

    d = {
        "version": list(sys.version_info[:3]),
        "opmap": dict(opcode.opmap),
        "opname": list(opcode.opname),
        "HAVE_ARGUMENT": opcode.HAVE_ARGUMENT,
        "EXTENDED_ARG": opcode.EXTENDED_ARG,
        "cmp_op": list(opcode.cmp_op),
        "magic": hexs(magic_bytes()),
    }
    for k in (
        "hasjrel",
        "hasjabs",
        "hasconst",
        "hasname",
        "haslocal",
        "hasfree",
        "hascompare",
        "hasarg",
        "hasexc",
        "hasjump",
        "hasnargs",
    ):
        if hasattr(opcode, k):
            d[k] = sorted(getattr(opcode, k))
    if hasattr(opcode, "_inline_cache_entries"):
        ice = opcode._inline_cache_entries
        if isinstance(ice, dict):
            d["cache"] = dict((k, int(v)) for k, v in ice.items())
        else:
            d["cache"] = dict(
                (opcode.opname[i], int(v)) for i, v in enumerate(ice) if v
            )
    d["dis_opmap"] = dict(dis.opmap)
    out.write(json.dumps(d) + "\n")


def cmd_stackeffect(args, out):
    """args: {"pairs": [[op, arg], ...]} or {"ops": [...], "args": [...]}"""
    import dis
    import opcode

    ops = args.get("ops")
    if ops is None:
        ops = sorted(set(opcode.opmap.values()))
    res = {}
    noarg = {}
    argl = args["args"]
    for op in ops:
        row = []
        for a in argl:
            try:
                if op >= opcode.HAVE_ARGUMENT or (
                    hasattr(opcode, "hasarg") and op in opcode.hasarg
                ):
                    v = dis.stack_effect(op, a)
                else:
                    v = dis.stack_effect(op) if a == 0 else "X"
            except (ValueError, OverflowError, SystemError):
                v = "X"
            row.append(v)
        res[str(op)] = row
        # the operand-less call form, whatever the table says about the opcode (3.12's SETUP_* / POP_BLOCK pseudo-instructions
        # are >= HAVE_ARGUMENT yet only accepted without an operand)
        try:
            noarg[str(op)] = dis.stack_effect(op)
        except (ValueError, OverflowError, SystemError, TypeError):
            noarg[str(op)] = "X"
    out.write(
        json.dumps(
            {
                "version": list(sys.version_info[:3]),
                "args": argl,
                "effects": res,
                "noarg": noarg,
                "opname": list(opcode.opname),
                "HAVE_ARGUMENT": opcode.HAVE_ARGUMENT,
                "hasarg": sorted(getattr(opcode, "hasarg", [])),
            }
        )
        + "\n"
    )


def cmd_loads(args, out):
    """args: {"streams": [hex, ...], "wrap": bool}  -> canonical value or error.
    With wrap, each stream is the marshal of a code object and the canonical
    form of its co_consts is reported."""
    for hx in args["streams"]:
        b = binascii.unhexlify(hx)
        try:
            v = marshal.loads(b)
            if args.get("wrap"):
                v = v.co_consts
            out.write(json.dumps({"ok": True, "canon": canon(v, "full")}) + "\n")
        except BaseException as e:
            if isinstance(e, (KeyboardInterrupt, SystemExit)):
                raise
            out.write(json.dumps({"ok": False, "error": type(e).__name__}) + "\n")
        out.flush()


def cmd_dumps(args, out):
    """Build values from a spec and marshal them with the interpreter's own
    marshal at a given format version; returns hex."""
    for spec in args["values"]:
        v = build_value(spec)
        for ver in args.get("versions", [marshal.version]):
            try:
                out.write(
                    json.dumps({"ok": True, "version": ver, "hex": hexs(marshal.dumps(v, ver))})
                    + "\n"
                )
            except Exception as e:
                out.write(json.dumps({"ok": False, "error": type(e).__name__}) + "\n")


def build_value(c):
    """Inverse of canon for plain values (no code)."""
    k = c[0]
    if k == "N":
        return None
    if k == "b":
        return bool(c[1])
    if k == "E":
        return Ellipsis
    if k == "S":
        return StopIteration
    if k == "i":
        return int(c[1], 16)
    if k == "l":
        return long_type(c[1], 16)
    if k == "f":
        return struct.unpack(">d", binascii.unhexlify(c[1]))[0]
    if k == "c":
        return complex(
            struct.unpack(">d", binascii.unhexlify(c[1]))[0],
            struct.unpack(">d", binascii.unhexlify(c[2]))[0],
        )
    if k in ("B", "s"):
        return binascii.unhexlify(c[1])
    if k == "u":
        return text_type(c[1])
    if k == "U":
        if PY2:
            return u"".join(unichr(x) for x in c[1])  # noqa: F821
        return "".join(chr(x) for x in c[1])
    if k == "t":
        return tuple(build_value(x) for x in c[1])
    if k == "L":
        return [build_value(x) for x in c[1]]
    if k == "F":
        return frozenset(build_value(x) for x in c[1])
    if k == "Z":
        return set(build_value(x) for x in c[1])
    if k == "D":
        return dict((build_value(a), build_value(b)) for a, b in c[1])
    raise ValueError("cannot build " + repr(k))


def minimal_code(consts, **kw):
    """A minimal code object of this interpreter whose co_consts is `consts`
    (plus optional field replacements)."""
    co = compile("pass", "<synth>", "exec")
    if PYV >= (3, 8):
        return co.replace(co_consts=consts, **kw)
    fields = dict((f, getattr(co, f)) for f in CODE_FIELDS)
    fields["co_consts"] = consts
    for k, v in kw.items():
        fields[k] = v
    if PY2:
        order = [
            "co_argcount",
            "co_nlocals",
            "co_stacksize",
            "co_flags",
            "co_code",
            "co_consts",
            "co_names",
            "co_varnames",
            "co_filename",
            "co_name",
            "co_firstlineno",
            "co_lnotab",
            "co_freevars",
            "co_cellvars",
        ]
    else:
        order = [
            "co_argcount",
            "co_kwonlyargcount",
            "co_nlocals",
            "co_stacksize",
            "co_flags",
            "co_code",
            "co_consts",
            "co_names",
            "co_varnames",
            "co_filename",
            "co_name",
            "co_firstlineno",
            "co_lnotab",
            "co_freevars",
            "co_cellvars",
        ]
    return CODE_TYPE(*[fields[f] for f in order])


def cmd_mkcode(args, out):
    """Build code objects from field replacement specs, write them as pyc files
    and report V's own views.  args: {"items":[{"pyc":..., "fields":{name: canon}}],
    "sections":[...]}.  Used for synthetic co_code / line tables / exception
    tables: V installs the bytes and V is the oracle."""
    sections = set(args.get("sections", []))
    import opcode

    out.write(
        json.dumps(
            {
                "kind": "header",
                "version": list(sys.version_info[:3]),
                "opname": list(opcode.opname),
                "magic": hexs(magic_bytes()),
                "header_len": header_len(),
            }
        )
        + "\n"
    )
    for it in args["items"]:
        rec = {"kind": "file", "pyc": it["pyc"], "tag": it.get("tag")}
        try:
            kw = {}
            consts = (None,)
            for k, c in it["fields"].items():
                if k == "co_consts":
                    consts = build_value(c)
                else:
                    v = build_value(c)
                    if PY2 and k in ("co_name", "co_filename") and isinstance(v, text_type):
                        v = v.encode("utf-8")
                    if PY2 and k in ("co_names", "co_varnames", "co_freevars", "co_cellvars"):
                        v = tuple(x.encode("utf-8") if isinstance(x, text_type) else x for x in v)
                    kw[str(k)] = v
            co = minimal_code(consts, **kw)
            write_pyc(co, it["pyc"])
            with open(it["pyc"], "rb") as f:
                data = f.read()
            payload = data[header_len():]
            co = marshal.loads(payload)
            rec["payload_len"] = len(payload)
            rec["ok"] = True
        except Exception as e:
            rec["ok"] = False
            rec["error"] = type(e).__name__ + ": " + str(e)[:200]
            out.write(json.dumps(rec) + "\n")
            continue
        out.write(json.dumps(rec) + "\n")
        try:
            cr = code_record("0", co, sections)
        except Exception as e:
            cr = {"path": "0", "oracle_error": type(e).__name__ + ": " + str(e)[:200]}
        cr["kind"] = "code"
        out.write(json.dumps(cr) + "\n")
        out.write(json.dumps({"kind": "endfile"}) + "\n")


def cmd_header(args, out):
    """3.7+: run CPython's own pyc classifier on each file."""
    if PYV >= (3, 7):
        from importlib import _bootstrap_external as be
    for p in args["files"]:
        with open(p, "rb") as f:
            data = f.read()
        rec = {"pyc": p}
        try:
            if PYV >= (3, 7):
                flags = be._classify_pyc(data, "x", {})
                rec["flags"] = flags
                rec["hash_based"] = bool(flags & 1)
                if flags & 1:
                    rec["hash"] = struct.unpack("<Q", data[8:16])[0]
                else:
                    rec["mtime"] = struct.unpack("<I", data[8:12])[0]
                    rec["size"] = struct.unpack("<I", data[12:16])[0]
                rec["hl"] = 16
            elif PYV >= (3, 3):
                rec["mtime"] = struct.unpack("<I", data[4:8])[0]
                rec["size"] = struct.unpack("<I", data[8:12])[0]
                rec["hl"] = 12
            else:
                rec["mtime"] = struct.unpack("<I", data[4:8])[0]
                rec["hl"] = 8
            rec["ok"] = True
            co = marshal.loads(data[rec["hl"]:])
            rec["code_name"] = co.co_name
            rec["code_digest"] = short(canon(co, "full"))
        except Exception as e:
            rec["ok"] = False
            rec["error"] = type(e).__name__ + ": " + str(e)[:100]
        out.write(json.dumps(rec) + "\n")


def cmd_pycompile(args, out):
    """Write real pyc files with py_compile in the requested invalidation mode."""
    import py_compile

    for it in args["items"]:
        rec = {"pyc": it["pyc"], "mode": it.get("mode")}
        try:
            if it.get("mtime") is not None:
                os.utime(it["src"], (it["mtime"], it["mtime"]))
            kw = {}
            if PYV >= (3, 7) and it.get("mode"):
                kw["invalidation_mode"] = getattr(py_compile.PycInvalidationMode, it["mode"])
            py_compile.compile(it["src"], cfile=it["pyc"], doraise=True, **kw)
            rec["ok"] = True
        except Exception as e:
            rec["ok"] = False
            rec["error"] = type(e).__name__ + ": " + str(e)[:100]
        out.write(json.dumps(rec) + "\n")


def cmd_execpyc(args, out):
    """Execute pyc files in a fresh namespace, capture stdout and the final
    plain globals.  One process per batch; caller bisects on crashes."""
    try:
        from cStringIO import StringIO
    except ImportError:
        from io import StringIO
    for p in args["files"]:
        rec = {"pyc": p}
        out.write(json.dumps({"begin": p}) + "\n")
        out.flush()
        try:
            with open(p, "rb") as f:
                data = f.read()
            co = marshal.loads(data[header_len():])
            rec["canon"] = short(canon(co, "full"))
            buf = StringIO()
            old = sys.stdout
            sys.stdout = buf
            g = {"__name__": "__verif__"}
            try:
                try:
                    exec(co, g)
                    rec["exc"] = None
                except BaseException as e:
                    if isinstance(e, KeyboardInterrupt):
                        raise
                    rec["exc"] = type(e).__name__ + ": " + str(e)[:200]
            finally:
                sys.stdout = old
            rec["stdout"] = buf.getvalue()
            gl = {}
            for k, v in g.items():
                if k.startswith("__"):
                    continue
                try:
                    c = canon(v, "ref")
                    if c[0] != "?":
                        gl[k] = short(c)
                except Exception:
                    pass
            rec["globals"] = gl
            rec["ok"] = True
        except BaseException as e:
            if isinstance(e, KeyboardInterrupt):
                raise
            rec["ok"] = False
            rec["error"] = type(e).__name__ + ": " + str(e)[:200]
        out.write(json.dumps(rec) + "\n")
        out.flush()


def cmd_redump(args, out):
    """The interpreter's own read-then-write: <pyc> -> marshal.loads -> marshal.dumps -> <pyc>.own.pyc (same header)."""
    for p in args["files"]:
        rec = {"pyc": p}
        try:
            with open(p, "rb") as f:
                data = f.read()
            hl = header_len()
            co = marshal.loads(data[hl:])
            with open(p + ".own.pyc", "wb") as f:
                f.write(data[:hl] + marshal.dumps(co))
            rec["ok"] = True
        except BaseException as e:
            if isinstance(e, KeyboardInterrupt):
                raise
            rec["ok"] = False
            rec["error"] = type(e).__name__
        out.write(json.dumps(rec) + "\n")


def cmd_loadpyc_canon(args, out):
    """marshal.loads the payload of each file and report the full canonical tree digest."""
    for p in args["files"]:
        rec = {"pyc": p}
        out.write(json.dumps({"begin": p}) + "\n")
        out.flush()
        try:
            with open(p, "rb") as f:
                data = f.read()
            co = marshal.loads(data[args.get("header_len", header_len()):])
            rec["canon"] = canon(co, "full")
            rec["ok"] = True
        except BaseException as e:
            if isinstance(e, KeyboardInterrupt):
                raise
            rec["ok"] = False
            rec["error"] = type(e).__name__ + ": " + str(e)[:200]
        out.write(json.dumps(rec) + "\n")
        out.flush()


def cmd_magic(args, out):
    out.write(
        json.dumps(
            {
                "version_info": list(sys.version_info[:3]) + [sys.version_info[3], sys.version_info[4]],
                "magic": hexs(magic_bytes()),
            }
        )
        + "\n"
    )


def cmd_linetab(args, out):
    """Install line tables in a code object and report dis.findlinestarts.
    args: {"items":[{"code_len": n, "firstlineno": k, "table": hex}]}"""
    import dis

    for it in args["items"]:
        rec = {}
        try:
            tab = binascii.unhexlify(it["table"])
            n = it["code_len"]
            if PYV >= (3, 6):
                body = bytes(bytearray([9, 0] * (n // 2)))  # NOP words
            else:
                body = b"\x09" * n  # NOP
            kw = {"co_code": body, "co_firstlineno": it["firstlineno"]}
            if PYV >= (3, 10):
                kw["co_linetable"] = tab
            else:
                kw["co_lnotab"] = tab
            co = minimal_code((None,), **kw)
            rec["linestarts"] = [[a, b] for a, b in dis.findlinestarts(co)]
            if PYV >= (3, 10):
                rec["colines"] = [[a, b, c] for a, b, c in co.co_lines()]
            rec["ok"] = True
        except Exception as e:
            rec["ok"] = False
            rec["error"] = type(e).__name__ + ": " + str(e)[:100]
        out.write(json.dumps(rec) + "\n")


CMDS = {
    "compile": cmd_compile,
    "tables": cmd_tables,
    "stackeffect": cmd_stackeffect,
    "loads": cmd_loads,
    "dumps": cmd_dumps,
    "mkcode": cmd_mkcode,
    "header": cmd_header,
    "pycompile": cmd_pycompile,
    "execpyc": cmd_execpyc,
    "loadpyc_canon": cmd_loadpyc_canon,
    "redump": cmd_redump,
    "magic": cmd_magic,
    "linetab": cmd_linetab,
}


def main():
    cmd, argfile, outfile = sys.argv[1:4]
    with open(argfile, "r") as f:
        args = json.load(f)
    sys.setrecursionlimit(5000)
    out = open(outfile, "w")
    try:
        CMDS[cmd](args, out)
    finally:
        out.close()


if __name__ == "__main__":
    main()
