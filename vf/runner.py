"""Entry point: python -m vf.runner <Cxx> [--tier quick|thorough] [--replay path]"""
import argparse
import importlib
import os
import sys
import time

from . import common as K


def main():
    ap = argparse.ArgumentParser()
    ap.add_argument("prop")
    ap.add_argument("--tier", default=os.environ.get("VERIF_TIER", "quick"))
    ap.add_argument("--replay", default=None)
    a = ap.parse_args()
    tier = a.tier if a.tier in ("quick", "thorough") else "quick"
    prop = a.prop.upper()
    mod = importlib.import_module("vf.props." + prop.lower())
    t0 = time.time()
    scratch = K.Scratch(prop)
    try:
        try:
            status = mod.run(tier, scratch, t0, replay=a.replay)
        except Exception:
            # a failure of the machinery itself is never a verdict about the repository
            import traceback

            traceback.print_exc()
            print("INCONCLUSIVE property=%s reason=internal error in the check (see traceback above)" % prop)
            status = 2
    finally:
        if not os.environ.get("VERIF_KEEP_SCRATCH"):
            scratch.cleanup()
    sys.exit(status)


if __name__ == "__main__":
    main()
