"""Entry point: python -m vf.runner <Cxx> [--tier quick|thorough] [--replay path]"""
import argparse
import importlib
import os
import sys
import time

from . import common as K


def main():
    ap = argparse.ArgumentParser()
    ap.add_argument("prop")
    ap.add_argument("--tier", default=os.environ.get("VERIF_TIER", "quick"))
    ap.add_argument("--replay", default=None)
    a = ap.parse_args()
    tier = a.tier if a.tier in ("quick", "thorough") else "quick"
    K.TIER = tier
    prop = a.prop.upper()
    replay_key = None
    if a.replay:
        # A replay file records property, tier, seed and the mechanism key with its witnesses.  Workloads are a
        # deterministic function of (tier, seed), so the case is re-created by re-running the check with the
        # recorded tier and seed; the outcome is reported for the recorded key only.
        import json

        with open(a.replay) as f:
            rp = json.load(f)
        tier = rp.get("tier", tier)
        os.environ["VERIF_SEED"] = str(rp.get("seed", 0))
        replay_key = rp.get("key")
        print("replaying %s: tier=%s seed=%s key=%s" % (a.replay, tier, rp.get("seed"), replay_key))
        for w in rp.get("witnesses", [])[:2]:
            print("  recorded witness: %s" % json.dumps(w.get("detail"), default=str)[:600])
    mod = importlib.import_module("vf.props." + prop.lower())
    t0 = time.time()
    scratch = K.Scratch(prop)
    try:
        try:
            status = mod.run(tier, scratch, t0, replay=a.replay)
        except Exception:
            # a failure of the machinery itself is never a verdict about the repository
            import traceback

            traceback.print_exc()
            print("INCONCLUSIVE property=%s reason=internal error in the check (see traceback above)" % prop)
            status = 2
    finally:
        if not os.environ.get("VERIF_KEEP_SCRATCH"):
            scratch.cleanup()
    if replay_key is not None:
        import glob
        import json

        again = False
        for f in glob.glob(os.path.join(os.environ.get("VERIF_REPLAY_DIR") or os.path.join(K.VERIF, "replays"), "%s-%s-*.json" % (prop, tier))):
            try:
                if json.load(open(f)).get("key") == replay_key:
                    again = True
            except Exception:
                pass
        print("REPLAY %s key=%s" % ("reproduced" if again else "did not reproduce", replay_key))
        sys.exit(1 if again else 0)
    sys.exit(status)


if __name__ == "__main__":
    main()
