"""Shared infrastructure: interpreter registry, sub-process drivers, result
accumulation, evidence writing, verdict discipline (DESIGN.md s4, s8)."""
import concurrent.futures as cf
import fnmatch
import hashlib
import json
import os
import random
import shutil
import subprocess
import sys
import time

VERIF = os.path.dirname(os.path.dirname(os.path.abspath(__file__)))
REPO = os.environ.get("VERIF_REPO", "/repo")
PYENV = "/root/.pyenv/versions"
TRUTH = os.path.join(VERIF, "vf", "oracle", "truth.py")
AGENT = os.path.join(VERIF, "vf", "subject", "agent.py")
DEPS = os.path.join(VERIF, ".deps")
NCPU = min(16, os.cpu_count() or 4)

# reference interpreters (producer + oracle); hosts are those able to import xdis
INTERPS = {
    (2, 7): PYENV + "/2.7.18/bin/python",
    (3, 6): PYENV + "/3.6.15/bin/python",
    (3, 7): PYENV + "/3.7.16/bin/python",
    (3, 8): PYENV + "/3.8.18/bin/python",
    (3, 9): PYENV + "/3.9.18/bin/python",
    (3, 10): PYENV + "/3.10.13/bin/python",
    (3, 11): PYENV + "/3.11.7/bin/python",
    (3, 12): PYENV + "/3.12.1/bin/python",
    (3, 13): PYENV + "/3.13.0/bin/python",
}
HOSTS = {
    (3, 8): INTERPS[(3, 8)],
    (3, 9): INTERPS[(3, 9)],
    (3, 10): INTERPS[(3, 10)],
    (3, 11): INTERPS[(3, 11)],
    (3, 12): "/venv/bin/python",
    (3, 13): INTERPS[(3, 13)],
}
MAIN_HOST = (3, 12)
LIBDIRS = {
    (2, 7): PYENV + "/2.7.18/lib/python2.7",
    (3, 6): PYENV + "/3.6.15/lib/python3.6",
    (3, 7): PYENV + "/3.7.16/lib/python3.7",
    (3, 8): PYENV + "/3.8.18/lib/python3.8",
    (3, 9): PYENV + "/3.9.18/lib/python3.9",
    (3, 10): PYENV + "/3.10.13/lib/python3.10",
    (3, 11): PYENV + "/3.11.7/lib/python3.11",
    (3, 12): PYENV + "/3.12.1/lib/python3.12",
    (3, 13): PYENV + "/3.13.0/lib/python3.13",
}


def vstr(v):
    return ".".join(str(x) for x in v[:2])


def available_interps():
    return dict((k, p) for k, p in INTERPS.items() if os.path.exists(p))


def available_hosts():
    return dict((k, p) for k, p in HOSTS.items() if os.path.exists(p))


class Scratch:
    """Per-run scratch directory under /verif/.scratch, removed at exit."""

    def __init__(self, tag):
        self.root = os.path.join(VERIF, ".scratch", "%s-%d" % (tag, os.getpid()))
        shutil.rmtree(self.root, ignore_errors=True)
        os.makedirs(self.root)
        self.n = 0

    def path(self, name):
        return os.path.join(self.root, name)

    def sub(self, name=None):
        self.n += 1
        p = os.path.join(self.root, name or ("d%d" % self.n))
        os.makedirs(p, exist_ok=True)
        return p

    def cleanup(self):
        shutil.rmtree(self.root, ignore_errors=True)


def base_env():
    env = dict(os.environ)
    env["PYTHONHASHSEED"] = "0"
    env["PYTHONDONTWRITEBYTECODE"] = "1"
    env.pop("PYTHONPATH", None)
    env.pop("PYTHONSTARTUP", None)
    return env


# Wall-clock watchdogs only guard against hangs; their firing is inconclusive, never a verdict.  They are scaled so that a
# loaded machine (other checks, seeding runs) does not turn a slow batch into an inconclusive run.
TIER = "quick"


def _scaled(timeout):
    return timeout * (8 if TIER == "thorough" else 3)


def run_truth(v, cmd, args, workdir, tag, timeout=600):
    """Run truth.py <cmd> inside reference interpreter v.  Returns
    (outfile or None, error string or None)."""
    timeout = _scaled(timeout)
    argf = os.path.join(workdir, tag + ".targs.json")
    outf = os.path.join(workdir, tag + ".truth.jsonl")
    with open(argf, "w") as f:
        json.dump(args, f)
    exe = INTERPS[v]
    try:
        p = subprocess.run(
            [exe, "-B", TRUTH, cmd, argf, outf],
            env=base_env(), stdout=subprocess.PIPE, stderr=subprocess.PIPE, timeout=timeout,
        )
    except subprocess.TimeoutExpired:
        return None, "truth-timeout"
    if p.returncode != 0:
        return (outf if os.path.exists(outf) else None), "truth-rc=%s: %s" % (
            p.returncode, p.stderr.decode("utf-8", "replace")[-400:])
    return outf, None


def run_agent(host, cmd, args, workdir, tag, timeout=900, extra_env=None):
    """Run agent.py <cmd> inside host interpreter with xdis from REPO."""
    timeout = _scaled(timeout)
    argf = os.path.join(workdir, tag + ".aargs.json")
    outf = os.path.join(workdir, tag + ".obs.json")
    with open(argf, "w") as f:
        json.dump(args, f)
    env = base_env()
    env["VERIF_REPO"] = REPO
    env["VERIF_ROOT"] = VERIF
    env["TMPDIR"] = workdir  # whatever the subject leaves in the temp directory goes away with the scratch directory
    if extra_env:
        env.update(extra_env)
    exe = HOSTS[host]
    try:
        p = subprocess.run(
            [exe, "-B", AGENT, cmd, argf, outf],
            env=env, stdout=subprocess.PIPE, stderr=subprocess.PIPE, timeout=timeout,
        )
    except subprocess.TimeoutExpired:
        return None, "agent-timeout", b"", b""
    if p.returncode != 0 or not os.path.exists(outf):
        return None, "agent-rc=%s: %s" % (p.returncode, p.stderr.decode("utf-8", "replace")[-800:]), p.stdout, p.stderr
    try:
        with open(outf) as f:
            res = json.load(f)
    except Exception as e:
        return None, "agent-output-unreadable: %r" % (e,), p.stdout, p.stderr
    return res, None, p.stdout, p.stderr


def read_jsonl(path):
    out = []
    with open(path) as f:
        for line in f:
            line = line.strip()
            if line:
                out.append(json.loads(line))
    return out


def pmap(fn, items, workers=None):
    """Thread pool over sub-process jobs (never multiprocessing.Pool)."""
    workers = workers or NCPU
    out = []
    with cf.ThreadPoolExecutor(max_workers=workers) as ex:
        futs = [ex.submit(fn, it) for it in items]
        for fu in futs:
            out.append(fu.result())
    return out


def sha(x):
    if not isinstance(x, bytes):
        x = json.dumps(x, sort_keys=True).encode("utf-8")
    return hashlib.sha1(x).hexdigest()


class Result:
    """Accumulates what the monitors observed in one run."""

    def __init__(self, prop):
        self.prop = prop
        self.evaluations = 0
        self.distinct = set()
        self.mismatches = []  # dicts: key, detail, replay (dict)
        self.samples = []
        self.counters = {}
        self.inconclusive = []  # reasons
        self.notes = []
        self.extra = {}
        self.sets = {}

    def count(self, name, n=1):
        self.counters[name] = self.counters.get(name, 0) + n

    def sample(self, s, limit=8):
        if len(self.samples) < limit:
            self.samples.append(s)

    def merge_agent(self, res):
        """Merge the standard agent result structure."""
        self.evaluations += res.get("evaluations", 0)
        for h in res.get("distinct", []):
            self.distinct.add(h)
        for k, n in res.get("counters", {}).items():
            self.count(k, n)
        for m in res.get("mismatches", []):
            self.mismatches.append(m)
        for s in res.get("samples", []):
            self.sample(s)
        # named sets merged by union (e.g. the opcodes observed per bytecode version)
        for k, vals in res.get("sets", {}).items():
            self.sets.setdefault(k, set()).update(vals)


def load_known():
    p = os.path.join(VERIF, "known_findings.json")
    if not os.path.exists(p):
        return {"known": [], "fixed": []}
    with open(p) as f:
        return json.load(f)


def match_known(prop, key, known):
    for k in known.get("known", []):
        if k["property"] != prop:
            continue
        pats = k["key"] if isinstance(k["key"], list) else [k["key"]]
        for pat in pats:
            if key == pat or fnmatch.fnmatchcase(key, pat):
                return k
    return None


def get_seed():
    try:
        return int(os.environ.get("VERIF_SEED", "0"))
    except ValueError:
        return 0


def finish(result, tier, level, rule, t0, assumptions=None, min_eval=1, level_extra=None):
    """Write evidence, print verdict lines and return the exit status."""
    prop = result.prop
    known = load_known()
    seed = get_seed()
    # (seeded-defect evaluation redirects both so that a run against a patched worktree never touches the real evidence)
    evidence_dir = os.environ.get("VERIF_EVIDENCE_DIR") or os.path.join(VERIF, "evidence")
    replay_dir = os.environ.get("VERIF_REPLAY_DIR") or os.path.join(VERIF, "replays")
    os.makedirs(evidence_dir, exist_ok=True)
    os.makedirs(replay_dir, exist_ok=True)

    import glob as _glob
    for old in _glob.glob(os.path.join(replay_dir, "%s-%s-*.json" % (prop, tier))):
        try:
            os.unlink(old)
        except OSError:
            pass
    known_hits = {}
    violations = {}
    for m in result.mismatches:
        k = match_known(prop, m["key"], known)
        if k is not None:
            known_hits.setdefault(k["id"], [k, 0, m])
            known_hits[k["id"]][1] += 1
        else:
            violations.setdefault(m["key"], []).append(m)

    lines = []
    for kid, (k, n, m) in sorted(known_hits.items()):
        lines.append("KNOWN-FINDING: property=%s %s [%s; %d occurrence(s) this run]" % (prop, k["what"], kid, n))
    replay_paths = []
    for i, (key, ms) in enumerate(sorted(violations.items())):
        rp = os.path.join(replay_dir, "%s-%s-%d.json" % (prop, tier, i))
        with open(rp, "w") as f:
            json.dump({"property": prop, "tier": tier, "seed": seed, "key": key,
                       "count": len(ms), "witnesses": ms[:5]}, f, indent=1, default=str)
        replay_paths.append(rp)
        lines.append("VIOLATION property=%s replay=%s" % (prop, rp))
        lines.append("  key=%s n=%d detail=%s" % (key, len(ms), json.dumps(ms[0].get("detail"), default=str)[:600]))

    status = 0
    if violations:
        status = 1
    elif result.inconclusive or result.evaluations < min_eval:
        status = 2
        reasons = list(result.inconclusive)
        if result.evaluations < min_eval:
            reasons.append("evaluations=%d < %d" % (result.evaluations, min_eval))
        lines.append("INCONCLUSIVE property=%s reason=%s" % (prop, "; ".join(reasons)[:800]))

    coverage = {
        "evaluations": int(result.evaluations),
        "distinct_nontrivial": len(result.distinct),
        "rule": rule,
        "samples": result.samples[:8] if result.samples else ["(no sample recorded)"],
        "counters": result.counters,
        "known_findings_observed": dict((kid, v[1]) for kid, v in known_hits.items()),
        "unlisted_mismatch_keys": sorted(violations.keys())[:50],
        "inconclusive_reasons": result.inconclusive[:20],
        "verdict": {0: "held-on-observed", 1: "violated", 2: "inconclusive"}[status],
    }
    coverage.update(result.extra)
    if result.sets:
        coverage["observed_sets"] = dict((k, {"n": len(v), "members": sorted(v)}) for k, v in sorted(result.sets.items()))
    if level_extra:
        coverage.update(level_extra)
    ev = {
        "property_id": prop,
        "tier": tier,
        "seed": seed,
        "level": level,
        "coverage": coverage,
        "assumptions": assumptions or [],
        "wall_s": round(time.time() - t0, 2),
        "violations": len(violations),
    }
    with open(os.path.join(evidence_dir, prop + ".json"), "w") as f:
        json.dump(ev, f, indent=1, default=str)
    for ln in lines:
        print(ln)
    print("%s tier=%s seed=%d evaluations=%d distinct_nontrivial=%d known=%d violations=%d verdict=%s wall=%.1fs" % (
        prop, tier, seed, result.evaluations, len(result.distinct), len(known_hits), len(violations),
        coverage["verdict"], time.time() - t0))
    for k in sorted(result.counters):
        print("   %s = %s" % (k, result.counters[k]))
    return status


def rng_for(*parts):
    return random.Random("|".join(str(p) for p in (get_seed(),) + parts))


def list_stdlib(v, rng, limit=None, exclude_tests=False):
    root = LIBDIRS[v]
    files = []
    for d, dirs, fs in os.walk(root):
        dirs[:] = sorted(x for x in dirs if x not in ("site-packages", "__pycache__", "lib2to3_bad"))
        for f in sorted(fs):
            if f.endswith(".py"):
                p = os.path.join(d, f)
                if exclude_tests and "/test/" in p:
                    continue
                files.append(p)
    if limit is not None and len(files) > limit:
        files = rng.sample(files, limit)
    return files


def corpus_files():
    """The historical corpus committed in REPO/test/bytecode_*."""
    out = []
    t = os.path.join(REPO, "test")
    for d in sorted(os.listdir(t)):
        if d.startswith("bytecode_"):
            for f in sorted(os.listdir(os.path.join(t, d))):
                if f.endswith(".pyc") or f.endswith(".pyo"):
                    out.append(os.path.join(t, d, f))
    return out


def chunks(lst, n):
    for i in range(0, len(lst), n):
        yield lst[i:i + n]
