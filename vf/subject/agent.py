"""Subject-side driver: runs INSIDE a host interpreter (3.8+) with xdis imported
from VERIF_REPO, performs xdis operations on the inputs named in the argument
file, applies the per-property comparators against the reference records
(truth.py output) and writes one JSON result:

  {"evaluations": n, "distinct": [sha1...], "counters": {...},
   "mismatches": [{"key": mechanism-key, "detail": {...}}], "samples": [...]}

Usage: python agent.py <cmd> <args.json> <out.json>
"""
import hashlib
import io
import json
import os
import sys
import time
import traceback

REPO = os.environ.get("VERIF_REPO", "/repo")
ROOT = os.environ.get("VERIF_ROOT", "/verif")
sys.path.insert(0, REPO)
sys.path.insert(1, ROOT)
_deps = os.path.join(ROOT, ".deps")
if os.path.isdir(_deps):
    sys.path.append(_deps)
sys.dont_write_bytecode = True

from vf import canon as C  # noqa: E402

HOSTV = tuple(sys.version_info[:2])


def sha(x):
    if not isinstance(x, bytes):
        x = json.dumps(x, sort_keys=True, default=str).encode("utf-8")
    return hashlib.sha1(x).hexdigest()


def vs(v):
    return "%d.%d" % (v[0], v[1])


class Acc:
    def __init__(self):
        self.evaluations = 0
        self.distinct = set()
        self.counters = {}
        self.sets = {}
        self.mismatches = []
        self.samples = []
        self.per_key = {}

    def count(self, k, n=1):
        self.counters[k] = self.counters.get(k, 0) + n

    def mismatch(self, key, **detail):
        n = self.per_key.get(key, 0)
        self.per_key[key] = n + 1
        if n < 3:  # keep a few witnesses per mechanism, count the rest
            self.mismatches.append({"key": key, "detail": detail})
        else:
            self.count("more:" + key)

    def sample(self, s, limit=4):
        if len(self.samples) < limit:
            self.samples.append(s)

    def result(self):
        # make sure every mismatching key is represented with its total count
        for m in self.mismatches:
            m["detail"]["_total_for_key"] = self.per_key[m["key"]]
        return {
            "evaluations": self.evaluations,
            "distinct": sorted(self.distinct),
            "counters": self.counters,
            "sets": dict((k, sorted(v)) for k, v in self.sets.items()),
            "mismatches": self.mismatches,
            "samples": self.samples,
        }


# ---------------------------------------------------------------------------
# stream iteration over truth records


def iter_truth(path):
    """Yield (header, file_rec, [code_recs]) per file."""
    header = None
    cur = None
    codes = []
    with open(path) as f:
        for line in f:
            line = line.strip()
            if not line:
                continue
            r = json.loads(line)
            k = r.get("kind")
            if k == "header":
                header = r
            elif k == "file":
                cur = r
                codes = []
                if not r.get("ok"):
                    yield header, cur, []
                    cur = None
            elif k == "code":
                codes.append(r)
            elif k == "endfile":
                if cur is not None:
                    yield header, cur, codes
                cur = None


# ---------------------------------------------------------------------------
# monitors installed on the real functions


class Monitors:
    """Wrap real xdis functions from the harness (no repository edit).  Uses
    icontract when it is importable, otherwise an equivalent hand wrapper; both
    count evaluations so that "never reached" is detectable."""

    def __init__(self):
        self.load_code_calls = 0
        self.load_code_pos = []  # (tell_after, total_len or None)
        self.installed = False

    def install_load_code(self):
        import xdis.unmarshal as um

        if self.installed:
            return
        orig = um.load_code
        mon = self

        def load_code(fp, magic_int, bytes_for_s=False, code_objects={}):
            if isinstance(fp, bytes):
                fp = io.BytesIO(fp)
            res = orig(fp, magic_int, bytes_for_s, code_objects)
            mon.load_code_calls += 1
            try:
                pos = fp.tell()
                cur = pos
                fp.seek(0, 2)
                end = fp.tell()
                fp.seek(cur)
                mon.load_code_pos.append((pos, end))
            except Exception:
                mon.load_code_pos.append((None, None))
            return res

        um.load_code = load_code
        self.installed = True


MON = Monitors()


# ---------------------------------------------------------------------------
# helpers around xdis


def xdis_load(pyc):
    """load_module with stdout/stderr captured (traceback.print_exc noise)."""
    from xdis.load import load_module

    return load_module(pyc)


def get_opc(version_tuple, is_pypy):
    from xdis.disasm import get_opcode

    return get_opcode(version_tuple, is_pypy)


def portable_load(data, header_len, magic_int):
    import xdis.unmarshal as um

    fp = io.BytesIO(data[header_len:])
    co = um.load_code(fp, magic_int)
    return co, fp.tell()


def inst_width(opc, op):
    if opc.version_tuple >= (3, 6):
        return 2
    return 3 if op >= opc.HAVE_ARGUMENT else 1


# ---------------------------------------------------------------------------
# comparators


def cmp_c01_code(acc, V, path_kind, fileid, crec, co):
    """One code object, field by field (C01)."""
    acc.evaluations += 1
    fields = crec["fields"]
    nontrivial = False
    for f, tv in fields.items():
        ov_raw = C.get_field(co, f)
        if ov_raw is C.Missing:
            acc.mismatch("C01|%s|field=%s|missing" % (path_kind, f), v=vs(V), file=fileid, path=crec["path"])
            continue
        ov = C.canon(ov_raw, V, "ref")
        if ov != tv:
            d = C.first_diff(tv, ov, f)
            where, a, b = d
            ka, kb = C.kind_of(a), C.kind_of(b)
            if ka != kb:
                key = "C01|%s|field=%s|kind:%s->%s" % (path_kind, f, ka, kb)
            elif "/len" in where:
                key = "C01|%s|field=%s|length" % (path_kind, f)
            else:
                key = "C01|%s|field=%s|value:%s" % (path_kind, f, ka)
            acc.mismatch(key, v=vs(V), file=fileid, path=crec["path"], where=where,
                         expected=json.dumps(a)[:300], observed=json.dumps(b)[:300])
    cc = fields.get("co_consts", ["t", []])
    for c in cc[1]:
        if c[0] in ("C", "t", "F", "f", "c", "B", "U", "l", "s") or (c[0] == "i" and len(c[1]) > 8):
            nontrivial = True
    if nontrivial:
        acc.distinct.add(sha(fields))


def xdis_instructions(co, opc, dup_lines=False):
    from xdis.bytecode import Bytecode

    return list(Bytecode(co, opc, dup_lines=dup_lines))


def cmp_c02_code(acc, V, src, fileid, crec, co, opc, header, insts):
    """Instruction stream of one code object vs V's dis (C02)."""
    if not crec.get("inst_ok"):
        acc.count("c02_oracle_unusable")
        return
    acc.evaluations += 1
    code = co.co_code
    n = len(code)
    # (a) tiling, reference-free
    pos = 0
    bad = None
    for ins in insts:
        if ins.offset != pos:
            bad = ("offset", ins.offset, pos)
            break
        pos += inst_width(opc, ins.opcode)
    if bad is None and pos != n:
        bad = ("end", pos, n)
    if bad:
        acc.mismatch("C02|%s|tiling:%s" % (src, bad[0]), v=vs(V), file=fileid, path=crec["path"],
                     got=bad[1], want=bad[2])
        return
    # (b) against V at V's offsets
    byoff = dict((i.offset, i) for i in insts)
    tin = crec["inst"]
    toffs = set()
    opname_tbl = header["opname"]
    for t in tin:
        off, op, name, arg = t[0], t[1], t[2], t[3]
        toffs.add(off)
        x = byoff.get(off)
        if x is None:
            acc.mismatch("C02|%s|no-instruction-at-offset" % src, v=vs(V), file=fileid, path=crec["path"], offset=off)
            return
        acc.sets.setdefault("opcodes_decoded_v" + vs(V), set()).add(name)
        if x.opcode != op:
            acc.mismatch("C02|%s|opcode" % src, v=vs(V), file=fileid, path=crec["path"], offset=off,
                         expected=op, observed=x.opcode)
            return
        if x.opname != name:
            acc.mismatch("C02|%s|opname:%s" % (src, name), v=vs(V), file=fileid, path=crec["path"], offset=off,
                         expected=name, observed=x.opname)
        if arg is not None and x.arg != arg:
            ext = "ext" if arg > 255 and V >= (3, 6) or arg > 65535 else "plain"
            acc.mismatch("C02|%s|arg:%s:%s" % (src, name, ext), v=vs(V), file=fileid, path=crec["path"], offset=off,
                         expected=arg, observed=x.arg)
    # offsets xdis reports that V does not: only inline CACHE slots (3.13 hides them)
    for i in insts:
        if i.offset not in toffs:
            if not (V >= (3, 13) and i.opname == "CACHE"):
                acc.mismatch("C02|%s|extra-instruction:%s" % (src, i.opname), v=vs(V), file=fileid,
                             path=crec["path"], offset=i.offset)
                break
    # inst_size / has_extended_arg consistency
    prev_ext = 0
    for i in insts:
        if hasattr(opc, "EXTENDED_ARG") and i.opcode == opc.EXTENDED_ARG:
            prev_ext += 1
            continue
        want_has = prev_ext > 0
        if bool(i.has_extended_arg) != want_has:
            acc.mismatch("C02|%s|has_extended_arg" % src, v=vs(V), file=fileid, path=crec["path"], offset=i.offset,
                         expected=want_has, observed=i.has_extended_arg)
            break
        prev_ext = 0
    if len(tin) >= 8 or any(t[2] == "EXTENDED_ARG" for t in tin):
        acc.distinct.add(sha(C.hexs(code) if isinstance(code, (bytes, bytearray)) else str(code)))
    if any(t[2] == "EXTENDED_ARG" for t in tin):
        acc.count("c02_codes_with_EXTENDED_ARG")


def argval_canon(x, V):
    av = x.argval
    return C.short(C.canon(av, V, "ref"))


def cmp_c03_code(acc, V, src, fileid, crec, co, opc, insts):
    if not crec.get("inst_ok"):
        return
    byoff = dict((i.offset, i) for i in insts)
    for t in crec["inst"]:
        if t[4] != "t":
            continue
        off, op, name, arg, _k, tav = t[:6]
        x = byoff.get(off)
        if x is None or x.opcode != op:
            continue  # C02's business
        if tav[0] == "?":
            # V's own dis left the operand unresolved (dis._Unknown, e.g. 3.11
            # KW_NAMES): the oracle has no answer for this instruction
            acc.count("c03_oracle_unresolved:" + name)
            continue
        acc.evaluations += 1
        if arg and arg > 255:
            acc.count("c03_operands_resolved:" + ("256-32767" if arg < 32768 else "32768-65535" if arg < 65536 else ">=65536"))
        try:
            oav = argval_canon(x, V)
        except Exception as e:
            acc.mismatch("C03|%s|%s|raises:%s" % (src, name, type(e).__name__), v=vs(V), file=fileid, path=crec["path"], offset=off)
            continue
        if isinstance(x.argval, tuple) and V >= (3, 13) and name in (
                "LOAD_FAST_LOAD_FAST", "STORE_FAST_LOAD_FAST", "STORE_FAST_STORE_FAST"):
            pass
        if oav != tav:
            if name == "COMPARE_OP" and tav[0] in ("u", "s") and oav[0] == tav[0]:
                def txt(c):
                    return c[1] if c[0] == "u" else bytes.fromhex(c[1]).decode("ascii", "replace")
                key = "C03|%s|COMPARE_OP|name:%s->%s" % (src, txt(tav), txt(oav))
            elif op in opc.FREE_OPS and V >= (3, 11) and tav[0] == "u" and tav[1] in tuple(getattr(co, "co_varnames", ())) \
                    and tav[1] in tuple(getattr(co, "co_freevars", ())):
                # structural marker: a free variable that has the same name as a local of the same code object
                key = "C03|%s|%s|free-variable-shares-name-with-a-local" % (src, name)
            else:
                ka, kb = C.kind_of(tav), C.kind_of(oav)
                cls = "arg>255" if (arg or 0) > 255 else "arg<=255"
                key = "C03|%s|%s|%s->%s|%s" % (src, name, ka, kb, cls)
            acc.mismatch(key, v=vs(V), file=fileid, path=crec["path"], offset=off, arg=arg,
                         expected=json.dumps(tav)[:200], observed=json.dumps(oav)[:200])
        if arg:
            acc.distinct.add(sha([vs(V), name, "big" if arg > 255 else "small", len(getattr(co, "co_consts", ())) > 255]))


def cmp_c04_code(acc, V, src, fileid, crec, co, opc, insts):
    """labels / jump argvals / is_jump_target flags (C04)."""
    code = co.co_code
    acc.evaluations += 1
    tl = set(crec["labels"])
    try:
        ol_list = list(opc.findlabels(code, opc))
    except Exception as e:
        acc.mismatch("C04|%s|findlabels-raises:%s" % (src, type(e).__name__), v=vs(V), file=fileid, path=crec["path"], msg=str(e)[:200])
        return
    ol = set(ol_list)
    if ol != tl:
        missing = sorted(tl - ol)
        extra = sorted(ol - tl)
        # attribute to the opcode of a jump whose target is affected
        culprit = "?"
        if crec.get("inst_ok") and crec.get("inst"):
            for t in crec["inst"]:
                if t[4] == "j" and t[5] in missing:
                    culprit = t[2]
                    break
        acc.mismatch("C04|%s|labels|%s" % (src, culprit), v=vs(V), file=fileid, path=crec["path"],
                     missing=missing[:10], extra=extra[:10])
    # the package-level findlabels() (exported from xdis itself) must give the same set as the table's own routine
    try:
        import xdis

        pub = set(xdis.findlabels(code, opc))
        acc.count("c04_public_findlabels_calls")
        if pub != tl:
            acc.mismatch("C04|%s|labels|xdis.findlabels" % src, v=vs(V), file=fileid, path=crec["path"],
                         missing=sorted(tl - pub)[:10], extra=sorted(pub - tl)[:10])
    except Exception as e:
        acc.mismatch("C04|%s|xdis.findlabels-raises:%s" % (src, type(e).__name__), v=vs(V), file=fileid, path=crec["path"], msg=str(e)[:200])
    exc_targets = set(e[2] for e in (crec.get("exc") or []))
    want_flags = tl | exc_targets
    starts = set(i.offset for i in insts)
    n = len(code)
    if crec.get("inst_ok") and crec.get("inst"):
        byoff = dict((i.offset, i) for i in insts)
        for t in crec["inst"]:
            off, op, name = t[0], t[1], t[2]
            x = byoff.get(off)
            if x is None or x.opcode != op:
                continue
            if t[4] == "j":
                if x.argval != t[5]:
                    acc.mismatch("C04|%s|target|%s" % (src, name), v=vs(V), file=fileid, path=crec["path"],
                                 offset=off, expected=t[5], observed=x.argval)
                elif not (t[5] in starts or t[5] == n):
                    acc.count("c04_truth_target_not_inst_start")
    for i in insts:
        want = i.offset in want_flags
        if bool(i.is_jump_target) != want:
            kind = "exc-target" if i.offset in exc_targets and i.offset not in tl else "label"
            acc.mismatch("C04|%s|is_jump_target|%s" % (src, kind), v=vs(V), file=fileid, path=crec["path"],
                         offset=i.offset, expected=want, observed=i.is_jump_target)
            break
    # every xdis label is an instruction start or len(code)
    for lab in ol:
        if not (lab in starts or lab == n):
            acc.mismatch("C04|%s|label-not-instruction-start" % src, v=vs(V), file=fileid, path=crec["path"], label=lab)
            break
    if tl:
        acc.distinct.add(sha(C.hexs(code)))


def sparse_c04(acc, V, src, fileid, crec, co, opc):
    """Large code objects (iterating them is quadratic in xdis): labels as a set, and every jump instruction
    decoded on its own with the labels passed in."""
    from xdis.bytecode import get_logical_instruction_at_offset

    acc.evaluations += 1
    acc.count("c04_sparse_checks_on_large_code")
    code = co.co_code
    tl = set(crec["labels"])
    try:
        ol = set(opc.findlabels(code, opc))
    except Exception as e:
        acc.mismatch("C04|%s|findlabels-raises:%s" % (src, type(e).__name__), v=vs(V), file=fileid, path=crec["path"])
        return
    if ol != tl:
        acc.mismatch("C04|%s|labels|large-code" % src, v=vs(V), file=fileid, path=crec["path"],
                     missing=sorted(tl - ol)[:8], extra=sorted(ol - tl)[:8])
    # 3.11+: the handler targets the Bytecode class will flag (it parses the exception table when it is built; no iteration)
    if V >= (3, 11) and crec.get("exc") is not None:
        try:
            from xdis.bytecode import Bytecode

            ents = Bytecode(co, opc).exception_entries or []
            acc.count("c04_large_code_exception_targets")
            got_t = sorted(set(e.target for e in ents))
            want_t = sorted(set(e[2] for e in crec["exc"]))
            if got_t != want_t:
                acc.mismatch("C04|%s|is_jump_target|exc-target|large-code" % src, v=vs(V), file=fileid, path=crec["path"],
                             expected=want_t[:8], observed=got_t[:8])
        except Exception as e:
            acc.mismatch("C04|%s|exception-entries-raise:%s|large-code" % (src, type(e).__name__), v=vs(V), file=fileid, path=crec["path"])
    if not crec.get("inst_ok"):
        return
    prev_ext = {}
    for t in crec["inst"]:
        pass
    insts = crec["inst"]
    for k, t in enumerate(insts):
        if t[4] != "j":
            continue
        # start decoding at the first EXTENDED_ARG prefix of this instruction
        j = k
        while j > 0 and insts[j - 1][2] == "EXTENDED_ARG":
            j -= 1
        try:
            got = list(get_logical_instruction_at_offset(code, insts[j][0], opc, varnames=co.co_varnames, names=co.co_names,
                                                         constants=co.co_consts, cells=(), linestarts=None, labels=list(ol)))
        except Exception as e:
            acc.mismatch("C04|%s|decode-raises:%s|%s" % (src, type(e).__name__, t[2]), v=vs(V), file=fileid, path=crec["path"], offset=t[0])
            continue
        x = got[-1]
        if x.offset != t[0] or x.opcode != t[1]:
            acc.mismatch("C04|%s|large-code-decode-offset" % src, v=vs(V), file=fileid, path=crec["path"], offset=t[0], observed=x.offset)
        elif x.argval != t[5]:
            acc.mismatch("C04|%s|target|%s" % (src, t[2]), v=vs(V), file=fileid, path=crec["path"], offset=t[0],
                         expected=t[5], observed=x.argval, large_code=True)
    if tl:
        acc.distinct.add(sha(C.hexs(code)))


def offset2line_ref(offset, linestarts):
    best = None
    for off, line in linestarts:
        if off <= offset:
            best = line
    return best


def cmp_c05_code(acc, V, src, fileid, crec, co, opc, insts_nodup, insts_dup, rng):
    acc.evaluations += 1
    tls = [tuple(x) for x in crec["linestarts"]]
    try:
        ols = [tuple(x) for x in opc.findlinestarts(co)]
    except Exception as e:
        acc.mismatch("C05|%s|findlinestarts-raises:%s" % (src, type(e).__name__), v=vs(V), file=fileid, path=crec["path"], msg=str(e)[:200])
        return
    if ols != tls:
        kind = "pairs"
        if any(l is None for _, l in tls):
            kind = "none-line-entries"
        elif len(ols) != len(tls):
            kind = "count"
        acc.mismatch("C05|%s|findlinestarts|%s" % (src, kind), v=vs(V), file=fileid, path=crec["path"],
                     expected=tls[:12], observed=ols[:12], n_expected=len(tls), n_observed=len(ols))
    # starts_line of the instruction stream (dup_lines=False must be exact)
    if crec.get("inst_ok") and crec.get("inst"):
        tl = dict((t[0], t[7]) for t in crec["inst"])
        for i in insts_nodup:
            if i.offset in tl and i.starts_line != tl[i.offset]:
                acc.mismatch("C05|%s|starts_line" % src, v=vs(V), file=fileid, path=crec["path"], offset=i.offset,
                             expected=tl[i.offset], observed=i.starts_line)
                break
        # dup_lines=True (the listing default) must be a superset carrying the line in effect
        tmap = sorted((o, l) for o, l in tls if l is not None)
        for i in insts_dup:
            if i.offset in tl and tl[i.offset] is not None and i.starts_line != tl[i.offset]:
                acc.mismatch("C05|%s|starts_line-dup-missing" % src, v=vs(V), file=fileid, path=crec["path"],
                             offset=i.offset, expected=tl[i.offset], observed=i.starts_line)
                break
            if i.offset in tl and tl[i.offset] is None and i.starts_line is not None:
                eff = offset2line_ref(i.offset, tmap)
                if eff != i.starts_line:
                    acc.mismatch("C05|%s|starts_line-dup-extra-wrong-line" % src, v=vs(V), file=fileid,
                                 path=crec["path"], offset=i.offset, expected=eff, observed=i.starts_line)
                    break
    # offset2line over the observed mapping
    from xdis.bytecode import offset2line

    good = [(o, l) for o, l in tls if l is not None]
    srt = sorted(good)
    if good and good == srt and len(set(o for o, _ in good)) == len(good):
        n = len(co.co_code)
        qs = set([good[0][0], n - 1, n]) | set(rng.randrange(good[0][0], n + 1) for _ in range(6)) | set(o for o, _ in good[:50])
        for q in sorted(qs):
            if q < good[0][0]:
                continue
            acc.count("c05_offset2line_queries")
            want = offset2line_ref(q, good)
            got = offset2line(q, good)
            if got != want:
                acc.mismatch("C05|offset2line", v=vs(V), file=fileid, path=crec["path"], query=q, expected=want, observed=got,
                             linestarts=good[:20])
                break
    if len(tls) >= 2:
        acc.distinct.add(sha([tls, crec.get("firstlineno")]))


def expand_positions(entries):
    out = []
    for e in entries:
        n = e[0]
        for _ in range(n):
            out.append(list(e[1:]))
    return out


def colines_map(triples, ncode):
    m = {}
    for a, b, l in triples:
        for o in range(a, b, 2):
            m[o] = l
    return m


def cmp_c17_code(acc, V, src, fileid, crec, co):
    """3.11+ tables on a portable code object (C17)."""
    from xdis.bytecode import parse_exception_table

    acc.evaluations += 1
    n = len(co.co_code)
    # exception table
    texc = [tuple(e) for e in (crec.get("exc") or [])]
    try:
        oexc = [(e.start, e.end, e.target, e.depth, bool(e.lasti)) for e in parse_exception_table(co.co_exceptiontable)]
        if oexc != texc:
            acc.mismatch("C17|%s|exception-table" % src, v=vs(V), file=fileid, path=crec["path"],
                         expected=texc[:6], observed=oexc[:6])
    except Exception as e:
        acc.mismatch("C17|%s|exception-table-raises:%s" % (src, type(e).__name__), v=vs(V), file=fileid, path=crec["path"])
    # the same entries as the Bytecode class hands them out (its own version gate decides whether the table is parsed at all)
    if n <= 4000:
        try:
            from xdis.bytecode import Bytecode
            from xdis.disasm import get_opcode

            ents = Bytecode(co, get_opcode(V, False)).exception_entries
            acc.count("c17_Bytecode_exception_entries")
            bexc = None if ents is None else [(e.start, e.end, e.target, e.depth, bool(e.lasti)) for e in ents]
            if bexc != texc:
                acc.mismatch("C17|%s|Bytecode.exception_entries" % src, v=vs(V), file=fileid, path=crec["path"],
                             expected=texc[:6], observed=None if bexc is None else bexc[:6])
        except Exception as e:
            acc.mismatch("C17|%s|Bytecode.exception_entries-raises:%s" % (src, type(e).__name__), v=vs(V), file=fileid, path=crec["path"])
    # co_lines as code-unit -> line map
    if hasattr(co, "co_lines") and crec.get("colines") is not None:
        try:
            ol = [tuple(x) for x in co.co_lines()]
            tm = colines_map(crec["colines"], n)
            om = colines_map(ol, n)
            if tm != om:
                diff = sorted(o for o in set(tm) | set(om) if tm.get(o, "absent") != om.get(o, "absent"))
                o0 = diff[0]
                acc.mismatch("C17|%s|co_lines" % src, v=vs(V), file=fileid, path=crec["path"], offset=o0,
                             expected=tm.get(o0, "absent"), observed=om.get(o0, "absent"), ndiff=len(diff))
            else:
                # tiling of the ranges
                pos = 0
                okt = True
                for a, b, _l in ol:
                    if a != pos or b < a:
                        okt = False
                        break
                    pos = b
                if ol and (not okt or pos != n):
                    acc.mismatch("C17|%s|co_lines-tiling" % src, v=vs(V), file=fileid, path=crec["path"], end=pos, ncode=n)
        except Exception as e:
            acc.mismatch("C17|%s|co_lines-raises:%s" % (src, type(e).__name__), v=vs(V), file=fileid, path=crec["path"], msg=str(e)[:200])
    # co_positions per code unit
    if hasattr(co, "co_positions") and crec.get("copositions") is not None:
        tp = crec["copositions"]
        try:
            raw = list(co.co_positions())
            if raw and len(raw[0]) == 5:
                op = expand_positions(raw)
            else:
                op = [list(p) for p in raw]
            if op != tp:
                idx = None
                for i in range(max(len(op), len(tp))):
                    a = tp[i] if i < len(tp) else None
                    b = op[i] if i < len(op) else None
                    if a != b:
                        idx = i
                        break
                a = tp[idx] if idx < len(tp) else None
                b = op[idx] if idx < len(op) else None
                which = "length"
                if a is not None and b is not None:
                    parts = []
                    for nm, x, y in zip(("line", "endline", "col", "endcol"), a, b):
                        if x != y:
                            parts.append(nm)
                    which = "+".join(parts)
                acc.mismatch("C17|%s|co_positions|%s" % (src, which), v=vs(V), file=fileid, path=crec["path"], unit=idx,
                             expected=a, observed=b)
        except Exception as e:
            acc.mismatch("C17|%s|co_positions-raises:%s" % (src, type(e).__name__), v=vs(V), file=fileid, path=crec["path"], msg=str(e)[:200])
    lt = C.get_field(co, "co_linetable")
    et = C.get_field(co, "co_exceptiontable")
    if (lt is not C.Missing and len(lt) > 0):
        acc.distinct.add(sha([C.hexs(lt), C.hexs(et) if et not in (None, C.Missing) else ""]))
    if texc:
        acc.count("c17_codes_with_exception_entries")


# ---------------------------------------------------------------------------
# sub-commands


def cmd_diff(args):
    """Differential pass over one truth file.  args:
      truth: path, props: [..], max_code: int (skip instruction checks above), seed"""
    import random

    props = set(args["props"])
    from xdis.bytecode import Bytecode

    acc = Acc()
    shared_bc = {}
    rng = random.Random(args.get("seed", 0))
    max_code = args.get("max_code", 1 << 30)
    need_inst = bool(props & {"C02", "C03", "C04", "C05"})
    if "C01" in props:
        MON.install_load_code()
    from xdis.magics import magic2int
    from xdis import unmarshal as um

    for header, frec, codes in iter_truth(args["truth"]):
        V = tuple(header["version"][:2])
        if not frec.get("ok"):
            acc.count("truth_rejected_input")
            continue
        pyc = frec["pyc"]
        fileid = frec.get("src") or frec.get("tag") or pyc
        with open(pyc, "rb") as f:
            data = f.read()
        hl = header["header_len"]
        acc.count("files")
        # --- load through the public entry point
        before = len(MON.load_code_pos)
        try:
            (version, ts, magic_int, co, is_pypy, size, sip) = xdis_load(pyc)
        except BaseException as e:
            if isinstance(e, (KeyboardInterrupt, SystemExit)):
                raise
            for p in sorted(props):
                acc.mismatch("%s|load_module-raises:%s" % (p, type(e).__name__), v=vs(V), file=fileid, msg=str(e)[-300:])
            continue
        from xdis.codetype.base import CodeBase

        native = not isinstance(co, CodeBase)
        trees = [("load_module:" + ("native" if native else "portable"), co)]
        if native:
            # the portable unmarshaller on the same bytes
            try:
                pco, _pos = portable_load(data, hl, magic2int(data[:4]))
                trees.append(("load_code:portable", pco))
            except BaseException as e:
                if isinstance(e, (KeyboardInterrupt, SystemExit)):
                    raise
                for p in sorted(props):
                    acc.mismatch("%s|load_code-raises:%s" % (p, type(e).__name__), v=vs(V), file=fileid, msg=str(e)[-300:])
        if "C01" in props:
            # whole payload consumed (file position after load_code)
            got_pos = MON.load_code_pos[before:]
            want = frec.get("consumed", frec["payload_len"])
            for pos, end in got_pos:
                acc.evaluations += 1
                acc.count("c01_consumed_checks")
                if pos is None:
                    continue
                consumed = pos - (end - frec["payload_len"]) if end >= frec["payload_len"] else pos
                if consumed != want:
                    acc.mismatch("C01|consumed", v=vs(V), file=fileid, expected=want, observed=consumed)
        try:
            opc = get_opc(version, is_pypy)
        except BaseException as e:
            for p in sorted(props - {"C01"}):
                acc.mismatch("%s|get_opcode-raises:%s" % (p, type(e).__name__), v=vs(V), file=fileid)
            opc = None
        for src, tree in trees:
            try:
                walked = list(C.walk_code(tree))
            except Exception as e:
                acc.mismatch("C01|%s|walk-raises:%s" % (src, type(e).__name__), v=vs(V), file=fileid)
                continue
            if len(walked) != len(codes) or [p for p, _ in walked] != [c["path"] for c in codes]:
                if "C01" in props:
                    acc.mismatch("C01|%s|code-tree-shape" % src, v=vs(V), file=fileid,
                                 expected=[c["path"] for c in codes][:20], observed=[p for p, _ in walked][:20])
                continue
            for (path, xco), crec in zip(walked, codes):
                if "oracle_error" in crec:
                    acc.count("oracle_error")
                    continue
                if "C01" in props:
                    cmp_c01_code(acc, V, src, fileid, crec, xco)
                if "C17" in props and V >= (3, 11) and src.endswith("portable"):
                    cmp_c17_code(acc, V, src, fileid, crec, xco)
                if need_inst and opc is not None:
                    if crec["ncode"] > max_code:
                        acc.count("skipped_large_code")
                        if "C04" in props and crec.get("labels") is not None:
                            sparse_c04(acc, V, src, fileid, crec, xco, opc)
                        continue
                    try:
                        insts = xdis_instructions(xco, opc, dup_lines=False)
                    except BaseException as e:
                        if isinstance(e, (KeyboardInterrupt, SystemExit)):
                            raise
                        tb = traceback.extract_tb(sys.exc_info()[2])
                        where = "%s:%s" % (os.path.basename(tb[-1].filename), tb[-1].name)
                        for p in sorted(props & {"C02", "C03", "C04", "C05"}):
                            acc.mismatch("%s|%s|Bytecode-raises:%s@%s" % (p, src, type(e).__name__, where), v=vs(V), file=fileid,
                                         path=path, msg=str(e)[:200])
                        continue
                    if "C02" in props:
                        cmp_c02_code(acc, V, src, fileid, crec, xco, opc, header, insts)
                    if "C03" in props:
                        cmp_c03_code(acc, V, src, fileid, crec, xco, opc, insts)
                    if props & {"C02", "C03"} and path != walked[0][0] and crec["ncode"] <= 1500:
                        # second entry point: ONE Bytecode object per file (built from the module's code), asked for the
                        # instructions of each nested code object - it must decode, and resolve operands against, the object
                        # it is given
                        p0 = "C02" if "C02" in props else "C03"
                        try:
                            if shared_bc.get(fileid) is None:
                                shared_bc.clear()
                                shared_bc[fileid] = Bytecode(walked[0][1], opc, dup_lines=False)
                            insts2 = list(shared_bc[fileid].get_instructions(xco))
                            acc.count("shared_Bytecode_get_instructions_calls")
                            if "C02" in props:
                                cmp_c02_code(acc, V, src + "+shared-Bytecode.get_instructions", fileid, crec, xco, opc, header, insts2)
                            if "C03" in props:
                                cmp_c03_code(acc, V, src + "+shared-Bytecode.get_instructions", fileid, crec, xco, opc, insts2)
                        except Exception as e:
                            acc.mismatch("%s|%s|shared-Bytecode.get_instructions-raises:%s" % (p0, src, type(e).__name__), v=vs(V),
                                         file=fileid, path=path, msg=str(e)[:200])
                    if "C04" in props:
                        cmp_c04_code(acc, V, src, fileid, crec, xco, opc, insts)
                    if "C05" in props:
                        try:
                            insts_dup = xdis_instructions(xco, opc, dup_lines=True)
                        except Exception:
                            insts_dup = []
                        cmp_c05_code(acc, V, src, fileid, crec, xco, opc, insts, insts_dup, rng)
        if len(acc.samples) < 3:
            acc.sample({"version": vs(V), "file": fileid, "code_objects": len(codes), "host": vs(HOSTV)})
    if "C01" in props:
        acc.count("load_code_monitor_calls", MON.load_code_calls)
    return acc.result()


CMDS = {"diff": cmd_diff}


def main():
    cmd, argfile, outfile = sys.argv[1:4]
    with open(argfile) as f:
        args = json.load(f)
    # keep xdis's own chatter away from our result channel: fd-level redirect
    # (several xdis functions bind sys.stdout at import time)
    if not args.get("keep_stdio"):
        sink = os.open(outfile + ".stdout", os.O_WRONLY | os.O_CREAT | os.O_TRUNC)
        sys.stdout.flush()
        os.dup2(sink, 1)
        sink2 = os.open(outfile + ".stderr", os.O_WRONLY | os.O_CREAT | os.O_TRUNC)
        sys.stderr.flush()
        saved2 = os.dup(2)
        os.dup2(sink2, 2)
    try:
        res = CMDS[cmd](args)
    except BaseException:
        if not args.get("keep_stdio"):
            sys.stderr.flush()
            os.dup2(saved2, 2)
        raise
    if not args.get("keep_stdio"):
        sys.stdout.flush()
        sys.stderr.flush()
        res.setdefault("counters", {})
        res["counters"]["stray_stdout_bytes"] = os.path.getsize(outfile + ".stdout")
        res["counters"]["stray_stderr_bytes"] = os.path.getsize(outfile + ".stderr")
        os.unlink(outfile + ".stdout")
        os.unlink(outfile + ".stderr")
    with open(outfile, "w") as f:
        json.dump(res, f, default=str)



# ---------------------------------------------------------------------------
# C08 magic-number coherence (finite domain, enumerated completely)


def cmd_magics(args):
    import re
    import tempfile

    acc = Acc()
    from xdis import magics as M
    from xdis.load import load_module
    from xdis.disasm import get_opcode

    # (1) mutual inverses on all 65536 magic integers / every known magic string
    for m in range(65536):
        acc.evaluations += 1
        try:
            b = M.int2magic(m)
            back = M.magic2int(b)
        except Exception as e:
            acc.mismatch("C08|inverse|int2magic-raises:%s" % type(e).__name__, magic=m)
            continue
        if back != m:
            acc.mismatch("C08|inverse|magic2int(int2magic(m))!=m", magic=m, got=back)
    acc.count("c08_inverse_ints", 65536)
    known_bytes = set(M.versions.keys()) | set(M.by_magic.keys()) | set(M.magics.values())
    for b in sorted(known_bytes):
        acc.evaluations += 1
        acc.count("c08_inverse_bytes")
        try:
            if M.int2magic(M.magic2int(b)) != b:
                acc.mismatch("C08|inverse|int2magic(magic2int(b))!=b", magic=C.hexs(b))
        except Exception as e:
            acc.mismatch("C08|inverse|raises:%s" % type(e).__name__, magic=C.hexs(b))

    # (2) CPython registry rows
    for rel, m in args["registry"]:
        acc.evaluations += 1
        acc.count("c08_registry_rows")
        mm = re.match(r"^(\d)\.(\d+)", rel)
        want = (int(mm.group(1)), int(mm.group(2)))
        if m not in M.magicint2version:
            acc.mismatch("C08|registry|unknown-magic|%d" % m, release=rel, magic=m)
            continue
        try:
            got = M.magic_int2tuple(m)[:2]
        except Exception as e:
            acc.mismatch("C08|registry|magic_int2tuple-raises:%s|%d" % (type(e).__name__, m), release=rel, magic=m)
            continue
        if got != want:
            acc.mismatch("C08|registry|wrong-version|%d" % m, release=rel, magic=m, got=list(got), want=list(want))
        acc.distinct.add(sha(["reg", m]))

    # (3) every magic xdis knows: version tuple, and "loads => opcode table"
    tmpd = tempfile.mkdtemp(prefix="c08", dir=args["workdir"])
    for m in sorted(M.magicint2version):
        acc.evaluations += 1
        acc.count("c08_known_magics")
        try:
            vt = M.magic_int2tuple(m)
        except Exception as e:
            acc.mismatch("C08|known-magic|magic_int2tuple-raises:%s|%d" % (type(e).__name__, m), magic=m,
                         version=M.magicint2version[m])
            continue
        p = os.path.join(tmpd, "m%d.pyc" % m)
        with open(p, "wb") as f:
            f.write(M.int2magic(m) + b"\0" * 60)
        try:
            r = load_module(p, get_code=False)
        except ImportError:
            acc.count("c08_magic_refused_by_load_module")
            os.unlink(p)
            continue
        except Exception as e:
            # neither accepted nor cleanly refused: C11's business, not C08's
            acc.count("c08_magic_refused_uncleanly:%s" % type(e).__name__)
            os.unlink(p)
            continue
        os.unlink(p)
        acc.count("c08_magic_accepted_by_load_module")
        version_tuple, is_pypy = r[0], r[4]
        try:
            opc = get_opcode(version_tuple, is_pypy)
            assert hasattr(opc, "opname") and len(opc.opname) >= 256
        except Exception as e:
            acc.mismatch("C08|loads-but-no-opcode-table|%s|%d" % (M.magicint2version[m], m), magic=m,
                         version=list(version_tuple), is_pypy=is_pypy, err=type(e).__name__ + ": " + str(e)[:100])
        acc.distinct.add(sha(["known", m]))
    # the loader also looks at the file *name* to tell PyPy files of some releases from CPython's: whatever it concludes,
    # a file it accepts must still get an opcode table
    for m in sorted(M.magicint2version):
        for suffix in (".pypy36.pyc", ".pypy37.pyc", ".pypy38.pyc", ".pypy39.pyc", ".pypy310.pyc", ".pypy3.pyc"):
            p = os.path.join(tmpd, "n%d%s" % (m, suffix))
            with open(p, "wb") as f:
                f.write(M.int2magic(m) + b"\0" * 60)
            acc.evaluations += 1
            acc.count("c08_named_file_loads")
            try:
                r = load_module(p, get_code=False)
            except Exception:
                os.unlink(p)
                continue
            os.unlink(p)
            try:
                opc = get_opcode(r[0], r[4])
                assert hasattr(opc, "opname") and len(opc.opname) >= 256
            except Exception as e:
                acc.mismatch("C08|loads-but-no-opcode-table|file-name%s|%d" % (suffix, m), magic=m, version=list(r[0]), is_pypy=r[4],
                             err=type(e).__name__ + ": " + str(e)[:100])
    os.rmdir(tmpd)

    # (4) release-name table
    final = dict((tuple(k.split(".")), v) for k, v in args["final_magic"].items())
    for name in sorted(M.magics):
        acc.evaluations += 1
        acc.count("c08_release_names")
        mm = re.match(r"^(\d+)\.(\d+)(?:\.(\d+))?", name)
        try:
            t = M.py_str2tuple(name)
        except Exception as e:
            acc.mismatch("C08|release-name|py_str2tuple-raises:%s" % type(e).__name__, name=name)
            continue
        if not mm:
            continue
        want = (int(mm.group(1)), int(mm.group(2)))
        if tuple(t[:2]) != want:
            acc.mismatch("C08|release-name|py_str2tuple-wrong", name=name, got=list(t), want=list(want))
        if mm.group(3) is not None and len(t) >= 3 and t[2] != int(mm.group(3)):
            acc.mismatch("C08|release-name|py_str2tuple-wrong-micro", name=name, got=list(t))
        # final releases X.Y.Z: magic must be the one that release really writes
        if re.match(r"^\d+\.\d+\.\d+$", name):
            key = (mm.group(1), mm.group(2))
            fm = final.get(key)
            if name in args["release_overrides"]:
                fm = args["release_overrides"][name]
            if fm is not None:
                acc.count("c08_final_release_names")
                got = M.magic2int(M.magics[name])
                if got != fm:
                    acc.mismatch("C08|release-name|wrong-magic|%s.%s" % key, name=name, got=got, want=fm)
                # ... and sysinfo2magic() of that release's sys.version_info must give the same magic
                vi = (int(mm.group(1)), int(mm.group(2)), int(mm.group(3)), "final", 0)
                acc.evaluations += 1
                acc.count("c08_sysinfo2magic_of_release_names")
                try:
                    got2 = M.magic2int(M.sysinfo2magic(vi))
                except Exception as e:
                    acc.mismatch("C08|release-name|sysinfo2magic-raises:%s" % type(e).__name__, name=name)
                else:
                    if got2 != fm:
                        acc.mismatch("C08|release-name|sysinfo2magic-wrong|%s.%s" % key, name=name, got=got2, want=fm)
        acc.distinct.add(sha(["name", name]))

    # (5) installed interpreters
    for it in args["interpreters"]:
        acc.evaluations += 1
        acc.count("c08_installed_interpreters")
        vi = tuple(it["version_info"])
        try:
            got = M.sysinfo2magic(vi)
        except Exception as e:
            acc.mismatch("C08|sysinfo2magic-raises:%s" % type(e).__name__, version_info=list(vi))
            continue
        if C.hexs(got) != it["magic"]:
            acc.mismatch("C08|sysinfo2magic-wrong|%d.%d" % vi[:2], version_info=list(vi), got=C.hexs(got), want=it["magic"])
        acc.sample({"interpreter": list(vi), "magic_written": it["magic"], "sysinfo2magic": C.hexs(got)})
    return acc.result()


CMDS["magics"] = cmd_magics



# ---------------------------------------------------------------------------
# C09 opcode tables: dump every table xdis can hand out


def table_dump(opc):
    d = {"version_tuple": list(getattr(opc, "version_tuple", ())), "is_pypy": bool(getattr(opc, "is_pypy", False)),
         "module": opc.__name__}
    d["opmap"] = dict(opc.opmap)
    d["opname"] = list(opc.opname)
    for k in ("HAVE_ARGUMENT", "EXTENDED_ARG", "EXTENDED_ARG_SHIFT"):
        d[k] = getattr(opc, k, None)
    for k in ("hasjrel", "hasjabs", "hasconst", "hasname", "haslocal", "hasfree", "hascompare", "hasnargs", "hasvargs",
              "hasarg", "hasexc", "hasjump", "hasstore", "nofollow"):
        v = getattr(opc, k, None)
        d[k] = sorted(v) if v is not None else None
    for k in ("JREL_OPS", "JABS_OPS", "CONST_OPS", "NAME_OPS", "LOCAL_OPS", "FREE_OPS", "COMPARE_OPS"):
        v = getattr(opc, k, None)
        d[k] = sorted(v) if v is not None else None
    d["oppush"] = list(opc.oppush)
    d["oppop"] = list(opc.oppop)
    d["cmp_op"] = list(getattr(opc, "cmp_op", ()))
    return d


def cmd_tables(args):
    from xdis.op_imports import op_imports, get_opcode_module
    from xdis.disasm import get_opcode

    out = {"tables": {}, "lookups": {}, "host": list(HOSTV)}
    seen = {}
    for key, mod in op_imports.items():
        name = mod.__name__
        if name not in seen:
            seen[name] = table_dump(mod)
        out["lookups"][str(key)] = name
    out["tables"] = seen
    # the lookup itself: which table each version name / (version, variant) pair reaches
    from xdis.magics import canonic_python_version

    out["canonic"] = dict((str(k), str(canonic_python_version.get(k, k))) for k in op_imports)
    out["get_opcode_module"] = {}
    pairs = set((tuple(t["version_tuple"][:2]), t["is_pypy"]) for t in seen.values())
    for vt, pypy in sorted(pairs):
        for variant in (None, "pypy"):
            k = "%d.%d/%s" % (vt[0], vt[1], variant)
            try:
                out["get_opcode_module"][k] = get_opcode_module(vt + (0, "final"), variant).__name__
            except Exception as e:
                out["get_opcode_module"][k] = "raises:" + type(e).__name__
    # a micro release the tables do not list (3.12.99): must fall back to the table of its major.minor
    for vt, pypy in sorted(pairs):
        if pypy:
            continue
        for micro in (99, 10):
            k = "%d.%d/micro%d" % (vt[0], vt[1], micro)
            try:
                out["get_opcode_module"][k] = get_opcode_module(vt + (micro, "final", 0), None).__name__
            except Exception as e:
                out["get_opcode_module"][k] = "raises:" + type(e).__name__
    # the float form of a version (deprecated but accepted: 3.8, 2.7 ...); minor numbers above 9 have no float form
    for vt, pypy in sorted(pairs):
        if vt[1] > 9 or pypy:
            continue
        k = "%d.%d/float" % vt
        try:
            out["get_opcode_module"][k] = get_opcode_module(float("%d.%d" % vt), None).__name__
        except Exception as e:
            out["get_opcode_module"][k] = "raises:" + type(e).__name__
    # what get_opcode hands out for each reference version
    out["get_opcode"] = {}
    for v in args.get("versions", []):
        try:
            out["get_opcode"]["%d.%d" % tuple(v)] = get_opcode(tuple(v), False).__name__
        except Exception as e:
            out["get_opcode"]["%d.%d" % tuple(v)] = "raises:" + type(e).__name__
    return out


CMDS["tables"] = cmd_tables



# ---------------------------------------------------------------------------
# C15 stack effects


def arg_class(a):
    if a == 0:
        return "0"
    if a <= 3:
        return "1-3"
    if a <= 10:
        return "4-10"
    if a <= 255:
        return "11-255"
    if a <= 65535:
        return "256-65535"
    return ">65535"


def cmd_stackeffect(args):
    from xdis.cross_dis import xstack_effect
    from xdis.disasm import get_opcode
    from xdis.std import make_std_api

    acc = Acc()
    # hostile order: the PyPy table of every version is queried first (same version tuple, other entries) - an answer
    # remembered per version must not leak into the CPython table's answers
    for pv in ((2, 7), (3, 5), (3, 6), (3, 7), (3, 8), (3, 9), (3, 10)):
        try:
            popc = get_opcode(pv, True)
        except Exception:
            continue
        for op in range(256):
            for a in (0, 1, 2, 3, 7, 255, 256):
                try:
                    xstack_effect(op, popc, a)
                except Exception:
                    pass
        acc.count("c15_pypy_tables_queried_first")
    for tf in args["truth_files"]:
        with open(tf) as f:
            t = json.loads(f.readline())
        V = tuple(t["version"][:2])
        opc = get_opcode(V, False)
        api = make_std_api(V)
        try:
            api99 = make_std_api(V + (99,))
            acc.evaluations += 1
            if api99.opc is not api.opc:
                acc.mismatch("C15|v%s|make_std_api(unlisted micro release)->%s" % (vs(V), api99.opc.__name__.split(".")[-1]))
        except Exception as e:
            acc.mismatch("C15|v%s|make_std_api(unlisted micro release)-raises:%s" % (vs(V), type(e).__name__))
        native = None
        if V == HOSTV and args.get("native"):
            import xdis.std as native
        argl = t["args"]
        hasarg = set(t["hasarg"]) if t["hasarg"] else None
        for ops, row in t["effects"].items():
            op = int(ops)
            name = t["opname"][op]
            takes = (op in hasarg) if hasarg is not None else op >= t["HAVE_ARGUMENT"]
            for a, want in zip(argl, row):
                if want == "X":
                    acc.count("c15_rejected_by_cpython")
                    continue
                acc.evaluations += 1
                srcs = [("xstack_effect", lambda: xstack_effect(op, opc, a) if takes else xstack_effect(op, opc)),
                        ("make_std_api", lambda: api.stack_effect(op, a) if takes else api.stack_effect(op))]
                if native is not None:
                    srcs.append(("std-native", lambda: native.stack_effect(op, a) if takes else native.stack_effect(op)))
                for sname, fn in srcs:
                    try:
                        got = fn()
                    except Exception as e:
                        got = "raises:" + type(e).__name__
                    if got != want:
                        acc.mismatch("C15|v%s|%s|arg:%s|%s" % (vs(V), name, arg_class(a) if takes else "none", sname),
                                     op=op, arg=a, expected=want, observed=got)
                if takes:
                    acc.distinct.add(sha([vs(V), op, a]))
        # operand-less call form, judged wherever CPython accepts it
        for ops, want in sorted(t.get("noarg", {}).items()):
            op = int(ops)
            if want == "X":
                continue
            name = t["opname"][op] if op < len(t["opname"]) else str(op)
            acc.evaluations += 1
            acc.count("c15_operandless_calls")
            srcs = [("xstack_effect", lambda: xstack_effect(op, opc)), ("make_std_api", lambda: api.stack_effect(op))]
            if native is not None:
                srcs.append(("std-native", lambda: native.stack_effect(op)))
            for sname, fn in srcs:
                try:
                    got = fn()
                except Exception as e:
                    got = "raises:" + type(e).__name__
                if got != want:
                    acc.mismatch("C15|v%s|%s|arg:none|%s" % (vs(V), name, sname), op=op, arg=None, expected=want, observed=got)
        acc.sample({"version": vs(V), "opcodes": len(t["effects"]), "operands_per_opcode": len(argl)})
    return acc.result()


CMDS["stackeffect"] = cmd_stackeffect



# ---------------------------------------------------------------------------
# C14 xdis.marsh <-> marshal on plain values


def shrink(v, fails, budget=2000):
    """Smallest sub-value that still fails on its own (structural shrink)."""
    from vf.gen import values as GV

    cur = v
    while budget > 0:
        nxt = None
        for ch in GV.children(cur):
            budget -= 1
            try:
                if fails(ch):
                    nxt = ch
                    break
            except Exception:
                pass
            if budget <= 0:
                break
        if nxt is None:
            return cur
        cur = nxt
    return cur


def cmd_marsh(args):
    import marshal
    import random

    import xdis.marsh as xm
    from vf.gen import values as GV

    acc = Acc()
    rng = random.Random("%s|%s" % (args["seed"], args.get("part", 0)))
    V = HOSTV

    def nan_norm(c):
        # C14 asks for an *equal value*; NaNs have no equality, so "is a NaN"
        # is all that can be demanded (the sign/payload of a NaN is C01's
        # business, where the statement names the bit pattern)
        if isinstance(c, list):
            if c and c[0] == "f" and isinstance(c[1], str) and len(c) == 2:
                bits = int(c[1], 16)
                if (bits & 0x7FF0000000000000) == 0x7FF0000000000000 and (bits & 0x000FFFFFFFFFFFFF):
                    return ["f", "nan"]
                return c
            if c and c[0] == "c" and len(c) == 3:
                return ["c", nan_norm(["f", c[1]])[1], nan_norm(["f", c[2]])[1]]
            out = [nan_norm(x) for x in c]
            if c and c[0] in ("F", "Z", "D") and len(out) == 2 and isinstance(out[1], list):
                out[1] = sorted(out[1], key=C.sort_key)
            return out
        return c

    def can(v):
        c = nan_norm(C.canon(v, V, "full"))
        if isinstance(c, list) and c and c[0] in ("F", "Z", "D"):
            pass
        return c

    def check_dumps(v):
        """xdis.marsh.dumps -> marshal.loads"""
        try:
            b = xm.dumps(v)
        except Exception as e:
            return "xdis.dumps-raises:" + type(e).__name__
        if not isinstance(b, (bytes, bytearray)):
            return "xdis.dumps-returns:" + type(b).__name__
        try:
            back = marshal.loads(b)
        except Exception as e:
            return "marshal.loads-rejects:" + type(e).__name__
        a, c = can(v), can(back)
        if a != c:
            d = C.first_diff(a, c)
            return "value-differs:%s->%s" % (C.kind_of(d[1]), C.kind_of(d[2]))
        return None

    def mk_check_loads(ver):
        def check_loads(v):
            try:
                b = marshal.dumps(v, ver)
            except Exception:
                return None  # host marshal cannot write it: outside the domain
            try:
                back = xm.loads(b)
            except Exception as e:
                return "xdis.loads-raises:" + type(e).__name__
            # text-float formats are lossy by construction (nan payloads):
            # the reference is what the host's own marshal reads from b
            a, c = can(marshal.loads(b)), can(back)
            if a != c:
                d = C.first_diff(a, c)
                return "value-differs:%s->%s" % (C.kind_of(d[1]), C.kind_of(d[2]))
            return None
        return check_loads

    def check_dump_file(v):
        f = io.BytesIO()
        try:
            xm.dump(v, f)
        except Exception as e:
            return "xdis.dump-raises:" + type(e).__name__
        f.seek(0)
        try:
            back = marshal.load(f)
        except Exception as e:
            return "marshal.load-rejects:" + type(e).__name__
        if can(v) != can(back):
            return "value-differs"
        return None

    def check_load_file(v):
        try:
            f = io.BytesIO(marshal.dumps(v, 0))
        except Exception:
            return None
        try:
            back = xm.load(f)
        except Exception as e:
            return "xdis.load-raises:" + type(e).__name__
        if can(marshal.loads(f.getvalue())) != can(back):
            return "value-differs"
        return None

    def check_load_stream(v):
        """Two values back to back in one file: load() must take exactly one value per call, as marshal.load does."""
        try:
            b1, b2 = marshal.dumps(v, 0), marshal.dumps((12345, "witness"), 0)
        except Exception:
            return None
        f = io.BytesIO(b1 + b2)
        try:
            first = xm.load(f)
            pos = f.tell()
            second = xm.load(f)
        except Exception as e:
            return "xdis.load-raises-on-second-value:" + type(e).__name__
        if pos != len(b1):
            return "position-after-first-value-differs"
        if can(marshal.loads(b1)) != can(first) or second != (12345, "witness"):
            return "value-differs"
        return None

    directions = [("dumps", check_dumps), ("loads-v0", mk_check_loads(0)), ("loads-v1", mk_check_loads(1)),
                  ("dump-file", check_dump_file), ("load-file", check_load_file), ("load-file-stream", check_load_stream)]
    n = args["n"]
    for i in range(n):
        v = GV.value(rng)
        cls = GV.classify(v)
        if GV.nontrivial(v):
            try:
                acc.distinct.add(sha(can(v)))
            except Exception:
                pass
        for dname, fn in directions:
            if dname.endswith("-file") and i % 4:
                continue
            acc.evaluations += 1
            try:
                r = fn(v)
            except RecursionError:
                r = "harness-recursion"
            if r is not None:
                small = shrink(v, lambda x: fn(x) is not None)
                r2 = fn(small)
                acc.mismatch("C14|%s|%s|%s" % (dname, GV.classify(small), r2 or r), host=vs(HOSTV),
                             value=repr(small)[:200], top_class=cls)
        for dname, fn in directions:
            pass
        if i < 3:
            acc.sample({"host": vs(HOSTV), "class": cls, "value": repr(v)[:120]})
    # "every nesting": chains far deeper than the random values reach (the host's marshal takes 2000 levels).  Compared
    # level by level without recursion in the harness.
    def chain(depth, kind):
        v = 7
        for _ in range(depth):
            v = (v,) if kind == "tuple" else [v] if kind == "list" else {1: v}
        return v

    def same_chain(a, b):
        while True:
            if type(a) is not type(b):
                return False
            if isinstance(a, (tuple, list)):
                if len(a) != 1 or len(b) != 1:
                    return a == b
                a, b = a[0], b[0]
            elif isinstance(a, dict):
                if list(a) != [1] or list(b) != [1]:
                    return False
                a, b = a[1], b[1]
            else:
                return a == b

    if str(args.get("part", 0)).endswith("0"):
        for depth in (100, 300, 700, 1500):
            dcls = "nesting<=300" if depth <= 300 else "nesting>=700"
            for kind in ("tuple", "list", "dict"):
                v = chain(depth, kind)
                acc.count("c14_deep_chains:" + dcls)
                acc.evaluations += 2
                acc.distinct.add(sha(["chain", depth, kind]))
                try:
                    b = xm.dumps(v)
                    try:
                        back = marshal.loads(b)
                        r = None if same_chain(v, back) else "value-differs"
                    except Exception as e:
                        r = "marshal.loads-rejects:" + type(e).__name__
                except Exception as e:
                    r = "xdis.dumps-raises:" + type(e).__name__
                if r:
                    acc.mismatch("C14|dumps|%s|%s" % (dcls, r), host=vs(HOSTV), depth=depth, container=kind)
                try:
                    hb = marshal.dumps(v, 0)
                except Exception:
                    continue
                try:
                    r = None if same_chain(v, xm.loads(hb)) else "value-differs"
                except Exception as e:
                    r = "xdis.loads-raises:" + type(e).__name__
                if r:
                    acc.mismatch("C14|loads-v0|%s|%s" % (dcls, r), host=vs(HOSTV), depth=depth, container=kind)
    # a direction that fails for (nearly) every shape is one mechanism, not one per shape
    per_dir = {}
    for key, n in acc.per_key.items():
        _p, dname, _cls, mech = key.split("|", 3)
        per_dir.setdefault((dname, mech), set()).add(_cls)
    collapse = set(k for k, classes in per_dir.items() if len(classes) >= 25)
    if collapse:
        newm, newpk = [], {}
        for m in acc.mismatches:
            _p, dname, _cls, mech = m["key"].split("|", 3)
            if (dname, mech) in collapse:
                m = {"key": "C14|%s|*all-shapes*|%s" % (dname, mech), "detail": m["detail"]}
            newm.append(m)
        for key, n in acc.per_key.items():
            _p, dname, _cls, mech = key.split("|", 3)
            if (dname, mech) in collapse:
                key = "C14|%s|*all-shapes*|%s" % (dname, mech)
            newpk[key] = newpk.get(key, 0) + n
        seen = {}
        acc.mismatches = []
        for m in newm:
            if seen.get(m["key"], 0) < 3:
                seen[m["key"]] = seen.get(m["key"], 0) + 1
                acc.mismatches.append(m)
        acc.per_key = newpk
    return acc.result()


CMDS["marsh"] = cmd_marsh



# ---------------------------------------------------------------------------
# C16 native <-> portable conversion (runs natively on each host)


def native_walk(co, path="0"):
    yield path, co
    for i, c in enumerate(co.co_consts):
        if hasattr(c, "co_code"):
            for x in native_walk(c, path + "." + str(i)):
                yield x


class ContractStats:
    evaluations = 0
    failures = []


def install_replace_contract():
    """icontract snapshot/ensure on the real replace(): the result differs from
    the original in exactly the requested fields and the original's canonical
    form is unchanged.  Conditions record and return True (never abort)."""
    from xdis.codetype.code13 import Code13

    try:
        import icontract
    except ImportError:
        icontract = None
    orig = Code13.replace

    def snap(self):
        return dict((k, C.canon(v, HOSTV, "ref")) for k, v in vars(self).items() if k.startswith("co_"))

    def judge(self, kwargs, result, old):
        ContractStats.evaluations += 1
        now = snap(self)
        if now != old:
            ContractStats.failures.append(("original-mutated", sorted(k for k in now if now.get(k) != old.get(k))))
        res = snap(result)
        changed = sorted(k for k in set(res) | set(old) if res.get(k) != old.get(k))
        want = sorted(k for k, v in kwargs.items() if C.canon(v, HOSTV, "ref") != old.get(k))
        if changed != want:
            ContractStats.failures.append(("wrong-fields-changed", changed, want))
        if result is self:
            ContractStats.failures.append(("returned-self",))
        return True

    if icontract is not None:
        class Broken(Exception):
            pass

        def old_state(self):
            return snap(self)

        def post(self, result, OLD, _ARGS=None):
            return True

        def replace(self, **kwargs):
            old = snap(self)
            result = orig(self, **kwargs)
            judge(self, kwargs, result, old)
            return result

        # icontract's decorator checks the postcondition at exit in the calling
        # thread; the recording condition above keeps the witness
        def ensure_recorded(self, result):
            return result is not None

        wrapped = icontract.ensure(ensure_recorded, error=Broken)(replace)
        Code13.replace = wrapped
        return "icontract"
    else:
        def replace(self, **kwargs):
            old = snap(self)
            result = orig(self, **kwargs)
            judge(self, kwargs, result, old)
            return result

        Code13.replace = replace
        return "wrapper"


class _PathStr(str):
    pass


def cmd_roundtrip(args):
    import warnings

    from xdis.codetype import codeType2Portable, portableCodeType

    warnings.simplefilter("ignore")
    acc = Acc()
    how = install_replace_contract()
    acc.count("c16_replace_contract_via_" + how)
    want_type = portableCodeType()
    H = vs(HOSTV)
    fields = None
    for src in args["sources"]:
        try:
            with open(src, "rb") as f:
                text = f.read()
            fname = src
            if (acc.counters.get("files", 0) % 5) == 3:
                # a native code object may carry a str *subclass* as co_filename (compile() keeps the object it was given)
                fname = _PathStr(src)
                acc.count("c16_filename_is_str_subclass")
            top = compile(text, fname, "exec", dont_inherit=True)
        except (SyntaxError, ValueError, RecursionError, MemoryError, OverflowError):
            acc.count("host_rejected_source")
            continue
        acc.count("files")
        for path, c in native_walk(top):
            acc.evaluations += 1
            if fields is None:
                fields = sorted(a for a in dir(c) if a.startswith("co_") and not callable(getattr(c, a)))
                if "co_lnotab" in fields and HOSTV >= (3, 10):
                    fields.remove("co_lnotab")  # derived (deprecated) attribute, not data
            try:
                p = codeType2Portable(c)
            except Exception as e:
                acc.mismatch("C16|h%s|codeType2Portable-raises:%s" % (H, type(e).__name__), file=src, path=path, msg=str(e)[:200])
                continue
            if type(p) is not want_type:
                acc.mismatch("C16|h%s|portable-type" % H, file=src, path=path, got=type(p).__name__, want=want_type.__name__)
            try:
                n = p.to_native()
            except Exception as e:
                acc.mismatch("C16|h%s|to_native-raises:%s" % (H, type(e).__name__), file=src, path=path, msg=str(e)[:200])
                continue
            for a in fields:
                try:
                    x, y = getattr(c, a), getattr(n, a)
                except Exception as e:
                    acc.mismatch("C16|h%s|to_native|field=%s|getattr-raises" % (H, a), file=src, path=path)
                    continue
                if x != y or type(x) is not type(y):
                    acc.mismatch("C16|h%s|to_native|field=%s" % (H, a), file=src, path=path,
                                 expected=repr(x)[:160], observed=repr(y)[:160])
            if hasattr(c, "co_lines"):
                try:
                    if list(c.co_lines()) != list(n.co_lines()):
                        acc.mismatch("C16|h%s|to_native|co_lines()" % H, file=src, path=path,
                                     expected=list(c.co_lines())[:6], observed=list(n.co_lines())[:6])
                except Exception as e:
                    acc.mismatch("C16|h%s|to_native|co_lines()-raises:%s" % (H, type(e).__name__), file=src, path=path)
            if hasattr(c, "co_positions"):
                try:
                    if list(c.co_positions()) != list(n.co_positions()):
                        acc.mismatch("C16|h%s|to_native|co_positions()" % H, file=src, path=path)
                except Exception as e:
                    acc.mismatch("C16|h%s|to_native|co_positions()-raises:%s" % (H, type(e).__name__), file=src, path=path)
            if n != c:
                acc.mismatch("C16|h%s|to_native|code-equality" % H, file=src, path=path)
            # portable attributes equal the native ones
            for a in fields:
                if hasattr(p, a):
                    if getattr(p, a) != getattr(c, a):
                        acc.mismatch("C16|h%s|portable|field=%s" % (H, a), file=src, path=path,
                                     expected=repr(getattr(c, a))[:160], observed=repr(getattr(p, a))[:160])
            # replace(): changed copy, original untouched
            before = len(ContractStats.failures)
            try:
                q = p.replace(co_name=c.co_name + "_x", co_firstlineno=c.co_firstlineno + 7)
                q2 = p.replace(co_consts=tuple(c.co_consts) + (None,))
                if q.co_name != c.co_name + "_x" or q.co_firstlineno != c.co_firstlineno + 7:
                    acc.mismatch("C16|h%s|replace|field-not-set" % H, file=src, path=path)
                if len(q2.co_consts) != len(c.co_consts) + 1:
                    acc.mismatch("C16|h%s|replace|field-not-set" % H, file=src, path=path)
                if p.co_name != c.co_name or p.co_firstlineno != c.co_firstlineno or tuple(p.co_consts) != tuple(c.co_consts):
                    acc.mismatch("C16|h%s|replace|original-altered" % H, file=src, path=path)
                # the changed copy converted back (p itself has been converted before: nothing remembered from that
                # conversion may travel with the copy), and the original converted again afterwards
                qn = q.to_native()
                acc.count("c16_replace_then_to_native")
                if qn.co_name != c.co_name + "_x" or qn.co_firstlineno != c.co_firstlineno + 7:
                    acc.mismatch("C16|h%s|replace|to_native-of-copy-shows-original" % H, file=src, path=path,
                                 co_name=qn.co_name, co_firstlineno=qn.co_firstlineno)
                if p.to_native() != c:
                    acc.mismatch("C16|h%s|replace|second-to_native-of-original-differs" % H, file=src, path=path)
            except Exception as e:
                acc.mismatch("C16|h%s|replace-raises:%s" % (H, type(e).__name__), file=src, path=path, msg=str(e)[:200])
            for fl in ContractStats.failures[before:]:
                acc.mismatch("C16|h%s|replace-contract|%s" % (H, fl[0]), file=src, path=path, info=list(fl[1:]))
            lt = getattr(c, "co_linetable", None) or getattr(c, "co_lnotab", b"")
            if len(lt) > 0:
                acc.distinct.add(sha([C.hexs(c.co_code), C.hexs(lt)]))
        if len(acc.samples) < 3:
            acc.sample({"host": H, "file": src, "portable_type": want_type.__name__})
    acc.count("c16_replace_contract_evaluations", ContractStats.evaluations)
    return acc.result()


CMDS["roundtrip"] = cmd_roundtrip



# ---------------------------------------------------------------------------
# C20 xdis.std as a drop-in for the host's dis


def collect_objects(ns, top_code):
    """(label, object) pairs dis accepts: functions, bound methods, generator /
    coroutine / async-generator objects, code objects, source strings."""
    import types

    out = []
    for name in sorted(ns):
        if name.startswith("__"):
            continue
        o = ns[name]
        if isinstance(o, types.FunctionType):
            out.append(("function", o))
            co = o.__code__
            noargs = co.co_argcount == 0 and co.co_kwonlyargcount == 0
            if noargs and co.co_flags & 0x20:  # generator
                out.append(("generator", o()))
            elif noargs and co.co_flags & 0x200:  # async generator
                out.append(("async_generator", o()))
            elif noargs and co.co_flags & 0x80:  # coroutine
                c = o()
                out.append(("coroutine", c))
        elif isinstance(o, type):
            out.append(("class", o))  # dis.dis() takes classes (it walks their functions); get_instructions does not
            for an in sorted(vars(o)):
                a = vars(o)[an]
                if isinstance(a, types.FunctionType):
                    try:
                        inst = o.__new__(o)
                        out.append(("method", getattr(inst, an)))
                    except Exception:
                        out.append(("function", a))
                elif isinstance(a, (staticmethod, classmethod)):
                    out.append(("function", a.__func__))
    for path, c in native_walk(top_code):
        out.append(("code", c))
    return out


def norm_line(ins):
    """3.13: starts_line is a bool and line_number carries the line."""
    if HOSTV >= (3, 13):
        return ins.line_number if ins.starts_line else None
    return ins.starts_line


def cmd_stdapi(args):
    import dis
    import opcode
    import random
    import warnings

    warnings.simplefilter("ignore")
    import xdis.std as xstd

    acc = Acc()
    H = vs(HOSTV)
    rng = random.Random(args.get("seed", 0))
    tbl = set(opcode.hasconst) | set(opcode.hasname) | set(opcode.haslocal) | set(opcode.hasfree) | set(opcode.hascompare)
    jumps = set(opcode.hasjrel) | set(opcode.hasjabs)

    # module-level tables
    for name in ("opmap", "opname", "hasconst", "hasname", "hasjrel", "hasjabs", "haslocal", "hascompare", "hasfree",
                 "hasarg", "hasexc", "hasjump", "HAVE_ARGUMENT", "EXTENDED_ARG"):
        if not hasattr(dis, name):
            continue
        acc.evaluations += 1
        ref = getattr(dis, name)
        if not hasattr(xstd, name):
            acc.mismatch("C20|h%s|module-attr-missing|%s" % (H, name))
            continue
        got = getattr(xstd, name)
        if name == "opmap":
            a = dict((k.replace("+", "_"), v) for k, v in ref.items())
            b = dict(got)
            if a != b:
                acc.mismatch("C20|h%s|module-attr-differs|opmap" % H, only_dis=sorted(set(a.items()) - set(b.items()))[:8],
                             only_xdis=sorted(set(b.items()) - set(a.items()))[:8])
        elif name == "opname":
            if list(ref) != list(got)[:len(ref)]:
                d = [(i, x, y) for i, (x, y) in enumerate(zip(ref, got)) if x != y]
                acc.mismatch("C20|h%s|module-attr-differs|opname" % H, diff=d[:8])
        elif name == "cmp_op":
            if tuple(ref) != tuple(got)[:len(ref)]:
                acc.mismatch("C20|h%s|module-attr-differs|cmp_op" % H, dis=list(ref), xdis=list(got))
        elif isinstance(ref, (list, tuple, set, frozenset)):
            if set(ref) != set(got):
                acc.mismatch("C20|h%s|module-attr-differs|%s" % (H, name), only_dis=sorted(set(ref) - set(got)), only_xdis=sorted(set(got) - set(ref)))
        elif ref != got:
            acc.mismatch("C20|h%s|module-attr-differs|%s" % (H, name), dis=ref, xdis=got)

    ctx = {}

    def cmp_streams(label, what, fl, ref_insts, got_insts, where):
        ref_insts = [i for i in ref_insts if i.opname != "CACHE"]
        got_insts = [i for i in got_insts if i.opname != "CACHE"]
        if len(ref_insts) != len(got_insts):
            acc.mismatch("C20|h%s|%s|%s|instruction-count" % (H, what, label), first_line=fl, where=where,
                         expected=len(ref_insts), observed=len(got_insts))
            return
        for r, g in zip(ref_insts, got_insts):
            for f in ("opcode", "opname", "arg", "offset"):
                if getattr(r, f) != getattr(g, f):
                    acc.mismatch("C20|h%s|%s|field=%s|%s" % (H, what, f, r.opname), first_line=fl, where=where, obj=label,
                                 offset=r.offset, expected=getattr(r, f), observed=getattr(g, f))
                    return
            r_jt = bool(r.is_jump_target)
            if HOSTV >= (3, 13) and what == "Bytecode" and ctx.get("labels") is not None:
                # 3.13's Instruction.is_jump_target is "has a display label",
                # and dis.Bytecode also labels the START and END of exception
                # ranges.  The flag C04 defines (jump target or handler
                # target) is what is demanded here; see DESIGN.md s7/C20.
                r_jt = r.offset in ctx["labels"]
            if r_jt != bool(g.is_jump_target):
                acc.mismatch("C20|h%s|%s|field=is_jump_target" % (H, what), first_line=fl, where=where, obj=label, offset=r.offset,
                             expected=r_jt, observed=g.is_jump_target)
                return
            rl = norm_line(r)
            gl = g.starts_line
            if rl != gl:
                acc.mismatch("C20|h%s|%s|field=starts_line|%s" % (H, what, "first_line-shift" if fl is not None else "no-shift"),
                             first_line=fl, where=where, obj=label, offset=r.offset, expected=rl, observed=gl)
                return
            if r.opcode in jumps:
                if r.argval != g.argval:
                    acc.mismatch("C20|h%s|%s|field=argval|jump|%s" % (H, what, r.opname), where=where, obj=label, offset=r.offset,
                                 expected=r.argval, observed=g.argval)
                    return
            elif r.opcode in tbl:
                a = C.short(C.canon(r.argval, HOSTV, "ref"))
                if a[0] == "?":
                    continue
                b = C.short(C.canon(g.argval, HOSTV, "ref"))
                if a != b:
                    if r.opname == "COMPARE_OP":
                        key = "C20|h%s|%s|field=argval|COMPARE_OP|%s->%s" % (H, what, r.argval, g.argval)
                    else:
                        key = "C20|h%s|%s|field=argval|%s" % (H, what, r.opname)
                    acc.mismatch(key, where=where, obj=label, offset=r.offset, expected=json.dumps(a)[:160], observed=json.dumps(b)[:160])
                    return

    nobj = 0
    for src in args["sources"]:
        try:
            with open(src, "rb") as f:
                text = f.read()
            top = compile(text, src, "exec", dont_inherit=True)
        except (SyntaxError, ValueError, RecursionError, MemoryError, OverflowError):
            acc.count("host_rejected_source")
            continue
        ns = {"__name__": "__verif__"}
        if args.get("exec_ok") and os.path.basename(src).startswith("g"):
            try:
                exec(top, ns)
            except BaseException as e:
                if isinstance(e, (KeyboardInterrupt, SystemExit)):
                    raise
                acc.count("program_raised")
        objs = collect_objects(ns, top)
        objs.append(("source", "a = b + 1\nfor i in c:\n    print(i)\n"))
        objs.append(("source", "x if y else z"))
        for label, o in objs:
            if label == "code" and len(o.co_code) > args.get("max_code", 4000):
                acc.count("skipped_large_code")
                continue
            nobj += 1
            # acceptance of the printing functions: whatever dis.dis / dis.show_code take, the same-named xdis.std function takes
            # (the text itself is xdis's own format and is C12's business)
            for fname in ("dis", "show_code"):
                if label not in ("class", "source", "generator", "coroutine", "async_generator", "method") and nobj % 5:
                    continue  # plain functions / code objects: every fifth one
                buf = io.StringIO()
                try:
                    getattr(dis, fname)(o, file=buf)
                except Exception:
                    acc.count("dis_%s_rejects_object" % fname)
                    continue
                acc.evaluations += 1
                acc.count("c20_printing_function_calls")
                buf2 = io.StringIO()
                try:
                    getattr(xstd, fname)(o, file=buf2)
                    if buf.getvalue().strip() and not buf2.getvalue().strip():
                        acc.mismatch("C20|h%s|%s()|%s|prints-nothing" % (H, fname, label), where=os.path.basename(src))
                except Exception as e:
                    acc.mismatch("C20|h%s|%s()|%s|raises:%s" % (H, fname, label, type(e).__name__), where=os.path.basename(src),
                                 msg=str(e)[:160])
            fls = [None] + ([rng.choice([1, 100, 10 ** 6])] if nobj % 3 == 0 else [])
            for fl in fls:
                kw = {} if fl is None else {"first_line": fl}
                try:
                    ref = list(dis.get_instructions(o, **kw))
                except Exception:
                    acc.count("dis_rejects_object")
                    continue
                ctx["labels"] = None
                if HOSTV >= (3, 13):
                    try:
                        rco = dis._get_code_object(o)
                        ctx["labels"] = set(dis.findlabels(rco.co_code)) | set(
                            e.target for e in dis._parse_exception_table(rco))
                    except Exception:
                        ctx["labels"] = None
                where = os.path.basename(src)
                acc.evaluations += 1
                try:
                    got = list(xstd.get_instructions(o, **kw))
                    cmp_streams(label, "get_instructions", fl, ref, got, where)
                except Exception as e:
                    acc.mismatch("C20|h%s|get_instructions|%s|raises:%s" % (H, label, type(e).__name__), first_line=fl, where=where, msg=str(e)[:200])
                acc.evaluations += 1
                try:
                    refb = list(dis.Bytecode(o, **kw))
                    gotb = list(xstd.Bytecode(o, **kw))
                    cmp_streams(label, "Bytecode", fl, refb, gotb, where)
                except Exception as e:
                    acc.mismatch("C20|h%s|Bytecode|%s|raises:%s" % (H, label, type(e).__name__), first_line=fl, where=where, msg=str(e)[:200])
            if label == "code":
                acc.evaluations += 1
                try:
                    a = sorted(set(dis.findlabels(o.co_code)))
                    b = sorted(set(xstd.findlabels(o.co_code)))
                    if a != b:
                        acc.mismatch("C20|h%s|findlabels" % H, where=os.path.basename(src), expected=a[:10], observed=b[:10])
                except Exception as e:
                    acc.mismatch("C20|h%s|findlabels|raises:%s" % (H, type(e).__name__), where=os.path.basename(src))
                acc.evaluations += 1
                try:
                    a = [tuple(x) for x in dis.findlinestarts(o)]
                    b = [tuple(x) for x in xstd.findlinestarts(o)]
                    if a != b:
                        kind = "none-line-entries" if any(l is None for _, l in a) else "pairs"
                        acc.mismatch("C20|h%s|findlinestarts|%s" % (H, kind), where=os.path.basename(src), expected=a[:8], observed=b[:8])
                except Exception as e:
                    acc.mismatch("C20|h%s|findlinestarts|raises:%s" % (H, type(e).__name__), where=os.path.basename(src))
                acc.distinct.add(sha(C.hexs(o.co_code)))
            else:
                acc.count("objects_" + label)
            if hasattr(o, "close"):
                try:
                    o.close()
                except Exception:
                    pass
        if len(acc.samples) < 3:
            acc.sample({"host": H, "file": src, "objects": [l for l, _ in objs][:12]})
    return acc.result()


CMDS["stdapi"] = cmd_stdapi


def inst_tuple(i, V):
    av = None
    try:
        av = C.short(C.canon(i.argval, V, "ref"))
    except Exception:
        av = ["?", "canon-failed"]
    return [i.offset, i.opcode, i.opname, i.arg, av, bool(i.is_jump_target), i.starts_line]


def cmd_stddump(args):
    """Dump xdis.std-style instruction streams: natively (default API on this
    host for code it compiles itself) or cross (make_std_api(V) on a pyc V wrote)."""
    import warnings

    warnings.simplefilter("ignore")
    out = {"files": {}}
    mode = args["mode"]
    if mode == "native":
        import xdis.std as xstd

        for src, pyc in args["items"]:
            with open(src, "rb") as f:
                top = compile(f.read(), os.path.basename(src), "exec", dont_inherit=True)
            recs = {}
            for path, c in native_walk(top):
                try:
                    recs[path] = {"inst": [inst_tuple(i, HOSTV) for i in xstd.get_instructions(c)],
                                  "labels": sorted(set(xstd.findlabels(c.co_code))),
                                  "linestarts": [list(x) for x in xstd.findlinestarts(c)]}
                except Exception as e:
                    recs[path] = {"error": type(e).__name__ + ": " + str(e)[:100]}
            out["files"][os.path.basename(src)] = recs
    else:
        from xdis.std import make_std_api

        V = tuple(args["version"])
        api = make_std_api(V)
        for src, pyc in args["items"]:
            recs = {}
            try:
                (version, ts, magic_int, co, is_pypy, size, sip) = xdis_load(pyc)
            except Exception as e:
                out["files"][os.path.basename(src)] = {"0": {"error": "load:" + type(e).__name__}}
                continue
            for path, c in C.walk_code(co):
                try:
                    recs[path] = {"inst": [inst_tuple(i, V) for i in api.get_instructions(c)],
                                  "labels": sorted(set(api.findlabels(c.co_code))),
                                  "linestarts": [list(x) for x in api.findlinestarts(c)]}
                except Exception as e:
                    recs[path] = {"error": type(e).__name__ + ": " + str(e)[:100]}
            out["files"][os.path.basename(src)] = recs
    return out


CMDS["stddump"] = cmd_stddump



# ---------------------------------------------------------------------------
# C12 listings: total, faithful to the instruction stream, clean

import re as _re

_INST_RE = _re.compile(r"^(?P<ln>\s*\d+:)?\s*(?P<cur>-->)?\s*(?P<jt>>>)?\s*(?P<off>\d+) (?:\|(?P<hex>[0-9a-f ]+)\| ?)?(?P<op>\S+)(?:\s+(?P<operand>.*))?$")
_ADDR_RE = _re.compile(r"0x[0-9a-fA-F]+")
_EXC_RE = _re.compile(r"^\s+\d+ to -?\d+ -> \d+ \[\d+\]( lasti)?$")


def parse_listing(text):
    """Split a classic/bytes listing into per-code-object instruction rows.
    Returns (rows, unparsed) where rows is a list of dicts in order."""
    rows = []
    unparsed = []
    in_exc = False
    for ln in text.split("\n"):
        if not ln.strip():
            continue
        if ln.startswith("#"):
            in_exc = False
            continue
        if ln.startswith("ExceptionTable:"):
            in_exc = True
            continue
        if in_exc and _EXC_RE.match(ln):
            continue
        in_exc = False
        m = _INST_RE.match(ln)
        if not m:
            unparsed.append(ln)
            continue
        d = m.groupdict()
        rows.append({"line": int(d["ln"].strip()[:-1]) if d["ln"] else None, "jt": bool(d["jt"]), "off": int(d["off"]),
                     "op": d["op"], "operand": (d["operand"] or "").strip(), "hex": d["hex"]})
    return rows, unparsed


def expected_rows(co, opc):
    """The instruction stream, code objects in the queue order the listing uses."""
    from collections import deque

    from xdis.bytecode import Bytecode
    from xdis.codetype.base import iscode

    out = []
    q = deque([co])
    while q:
        c = q.popleft()
        out.append(("code", c))
        for ins in Bytecode(c, opc, dup_lines=True):
            out.append(("ins", ins))
        for k in c.co_consts:
            if iscode(k):
                q.append(k)
    return out


class FdWatch:
    """Bytes appearing on fd 1 / fd 2 (already redirected to sink files by
    main()) and on sys.stdout / sys.stderr during a call."""

    def __enter__(self):
        sys.stdout.flush()
        sys.stderr.flush()
        self.s1 = os.fstat(1).st_size
        self.s2 = os.fstat(2).st_size
        return self

    def __exit__(self, *a):
        sys.stdout.flush()
        sys.stderr.flush()
        self.out = os.fstat(1).st_size - self.s1
        self.err = os.fstat(2).st_size - self.s2
        return False

    def tail(self, fd, n):
        try:
            with open("/proc/self/fd/%d" % fd, "rb") as f:
                f.seek(max(0, os.fstat(fd).st_size - n))
                return f.read().decode("utf-8", "replace")
        except Exception:
            return ""


def cmd_listings(args):
    from xdis.disasm import disassemble_file, get_opcode
    from xdis.load import load_module

    acc = Acc()
    formats = args["formats"]
    for item in args["files"]:
        pyc = item["pyc"]
        label = item.get("label", pyc)
        vtag = item.get("vtag", "?")
        try:
            (version, ts, magic_int, co, is_pypy, size, sip) = load_module(pyc)
        except BaseException as e:
            if isinstance(e, (KeyboardInterrupt, SystemExit)):
                raise
            acc.count("unloadable_input:" + vtag)
            continue
        V = tuple(version[:2])
        nontriv = False
        try:
            nontriv = any(hasattr(c, "co_code") for c in co.co_consts) or len(co.co_code) > 30
        except Exception:
            pass
        stream = None
        for fmt in formats:
            acc.evaluations += 1
            buf = io.StringIO()
            err = None
            with FdWatch() as w:
                try:
                    disassemble_file(pyc, outstream=buf, asm_format=fmt)
                except BaseException as e:
                    if isinstance(e, (KeyboardInterrupt, SystemExit)):
                        raise
                    tb = traceback.extract_tb(sys.exc_info()[2])
                    err = (type(e).__name__, "%s:%s" % (os.path.basename(tb[-1].filename), tb[-1].name), str(e)[:160])
            if err:
                acc.mismatch("C12|%s|raises:%s@%s|v%s%s" % (fmt, err[0], err[1], vs(V), "pypy" if is_pypy else ""),
                             file=label, msg=err[2])
                continue
            if w.out or w.err:
                which = "stdout" if w.out else "stderr"
                acc.mismatch("C12|%s|stray-output:%s|v%s" % (fmt, which, vs(V)), file=label, nbytes=w.out or w.err,
                             text=w.tail(1 if w.out else 2, 200))
            text = buf.getvalue()
            if not text.strip():
                acc.mismatch("C12|%s|empty-listing|v%s" % (fmt, vs(V)), file=label)
                continue
            if nontriv:
                acc.distinct.add(sha([label, fmt]))
            if fmt not in ("classic", "bytes"):
                continue
            # faithful to the instruction stream
            try:
                if stream is None:
                    opc = get_opcode(version, is_pypy)
                    stream = [x for k, x in expected_rows(co, opc) if k == "ins"]
            except BaseException as e:
                if isinstance(e, (KeyboardInterrupt, SystemExit)):
                    raise
                acc.count("stream_unavailable")
                continue
            rows, unparsed = parse_listing(text)
            if unparsed:
                acc.mismatch("C12|%s|unparseable-line|v%s" % (fmt, vs(V)), file=label, line=unparsed[0][:160], n=len(unparsed))
                continue
            # every "to N" operand must point at a row carrying the '>>' mark (or at the end of a code object)
            marked = set(r["off"] for r in rows if r["jt"])
            ends = set()
            prev = None
            for r in rows:
                if prev is not None and r["off"] < prev:
                    ends.add(prev_end)
                prev = r["off"]
                prev_end = r["off"] + (2 if V >= (3, 6) else (3 if r["operand"] != "" else 1))
            if rows:
                ends.add(prev_end)
            for r in rows:
                m = _re.match(r"^\(to (\d+)\)$", r["operand"])
                if m and int(m.group(1)) not in marked and int(m.group(1)) not in ends:
                    acc.mismatch("C12|%s|jump-operand-points-at-unmarked-row|%s|v%s" % (fmt, r["op"], vs(V)), file=label,
                                 offset=r["off"], operand=r["operand"])
                    break
            rows = [r for r in rows if r["op"] != "CACHE"]
            exp = [i for i in stream if i.opname != "CACHE"]
            acc.count("c12_listing_rows_checked", len(rows))
            if len(rows) != len(exp):
                acc.mismatch("C12|%s|row-count|v%s" % (fmt, vs(V)), file=label, listing=len(rows), stream=len(exp))
                continue
            for r, i in zip(rows, exp):
                if r["off"] != i.offset or r["op"] != i.opname:
                    acc.mismatch("C12|%s|row-order|v%s" % (fmt, vs(V)), file=label, listing=[r["off"], r["op"]],
                                 stream=[i.offset, i.opname])
                    break
                if r["jt"] != bool(i.is_jump_target):
                    acc.mismatch("C12|%s|jump-mark|v%s" % (fmt, vs(V)), file=label, offset=i.offset, listing=r["jt"],
                                 stream=bool(i.is_jump_target))
                    break
                if V >= (2, 3) and r["line"] != i.starts_line:
                    acc.mismatch("C12|%s|line-number-column|v%s" % (fmt, vs(V)), file=label, offset=i.offset,
                                 listing=r["line"], stream=i.starts_line)
                    break
                if i.arg is None:
                    want = ""
                elif not i.argrepr:
                    want = repr(i.arg)
                else:
                    want = "(%s)" % i.argrepr
                if _ADDR_RE.sub("0x?", r["operand"]) != _ADDR_RE.sub("0x?", want.strip()):
                    acc.mismatch("C12|%s|operand|%s|v%s" % (fmt, i.optype, vs(V)), file=label, offset=i.offset, opname=i.opname,
                                 listing=r["operand"][:120], stream=want[:120])
                    break
                if fmt == "bytes" and r["hex"] is not None:
                    hx = r["hex"].split()
                    if int(hx[0], 16) != i.opcode:
                        acc.mismatch("C12|bytes|hex-opcode|v%s" % vs(V), file=label, offset=i.offset)
                        break
        # the Bytecode class's own listing with the public first_line keyword: the line column must show the shifted numbers
        # the instruction stream of the same object carries
        try:
            if V >= (2, 3) and len(co.co_code) <= 3000:
                from xdis.bytecode import Bytecode

                opc2 = get_opcode(version, is_pypy)
                fl = int(co.co_firstlineno) + 100
                bc = Bytecode(co, opc2, first_line=fl)
                acc.evaluations += 1
                acc.count("c12_Bytecode_dis_first_line_listings")
                rows2, unparsed2 = parse_listing(bc.dis())
                exp2 = [i for i in bc if i.opname != "CACHE"]
                rows2 = [r for r in rows2 if r["op"] != "CACHE"]
                if unparsed2:
                    acc.mismatch("C12|Bytecode.dis(first_line)|unparseable-line|v%s" % vs(V), file=label, line=unparsed2[0][:160])
                elif len(rows2) != len(exp2):
                    acc.mismatch("C12|Bytecode.dis(first_line)|row-count|v%s" % vs(V), file=label, listing=len(rows2), stream=len(exp2))
                else:
                    for r, i in zip(rows2, exp2):
                        if r["off"] != i.offset or r["op"] != i.opname:
                            acc.mismatch("C12|Bytecode.dis(first_line)|row-order|v%s" % vs(V), file=label, offset=i.offset)
                            break
                        if r["line"] != i.starts_line:
                            acc.mismatch("C12|Bytecode.dis(first_line)|line-number-column|v%s" % vs(V), file=label, offset=i.offset,
                                         listing=r["line"], stream=i.starts_line, first_line=fl)
                            break
        except BaseException as e:
            if isinstance(e, (KeyboardInterrupt, SystemExit)):
                raise
            tb = traceback.extract_tb(sys.exc_info()[2])
            acc.mismatch("C12|Bytecode.dis(first_line)|raises:%s@%s|v%s" % (type(e).__name__, "%s:%s" % (os.path.basename(tb[-1].filename), tb[-1].name), vs(V)),
                         file=label, msg=str(e)[:160])
        if len(acc.samples) < 3:
            acc.sample({"file": label, "version": vs(V), "formats": formats})
    return acc.result()


CMDS["listings"] = cmd_listings



# ---------------------------------------------------------------------------
# C07 host / loader-path independence: renderings + digests per file


def mask_listing(text):
    out = []
    skip_next_bracket = False
    for ln in text.split("\n"):
        if ln.startswith("# Disassembled from"):
            skip_next_bracket = True
            continue
        if skip_next_bracket and ln.startswith("# ["):
            skip_next_bracket = False
            continue
        skip_next_bracket = False
        out.append(_ADDR_RE.sub("0x?", ln))
    return "\n".join(out)


def stream_render(co, opc, V):
    from xdis.bytecode import Bytecode

    lines = []
    for path, c in C.walk_code(co):
        lines.append("@code %s %s" % (path, C.canon(c.co_name, V, "ref")))
        try:
            for i in Bytecode(c, opc, dup_lines=False):
                try:
                    av = json.dumps(C.short(C.canon(i.argval, V, "ref")))
                except Exception as e:
                    av = "canon-raises:" + type(e).__name__
                lines.append("%d %d %s %r %s %s %r" % (i.offset, i.opcode, i.opname, i.arg, av, bool(i.is_jump_target), i.starts_line))
            lines.append("labels %r" % (sorted(set(opc.findlabels(c.co_code, opc))),))
            lines.append("linestarts %r" % ([tuple(x) for x in opc.findlinestarts(c)],))
        except Exception as e:
            lines.append("raises %s" % type(e).__name__)
    return "\n".join(lines)


def tree_render(co, V):
    lines = []
    for path, c in C.walk_code(co):
        d = C.canon_code(c, V, "ref")
        for f in sorted(d):
            lines.append("%s %s %s" % (path, f, json.dumps(C.short(d[f]))))
    return "\n".join(lines)


def cmd_digest(args):
    import warnings

    warnings.simplefilter("ignore")
    from xdis.disasm import disassemble_file, disco, get_opcode
    from xdis.load import load_module
    from xdis.magics import magic2int
    from xdis.codetype import codeType2Portable
    from xdis.codetype.base import CodeBase

    out = {"host": list(HOSTV), "files": {}}
    formats = args["formats"]
    for item in args["files"]:
        pyc, label = item["pyc"], item["label"]
        rec = {}
        try:
            (version, ts, magic_int, co, is_pypy, size, sip) = load_module(pyc)
        except BaseException as e:
            if isinstance(e, (KeyboardInterrupt, SystemExit)):
                raise
            out["files"][label] = {"load": "raises:" + type(e).__name__}
            continue
        V = tuple(version[:2])
        native = not isinstance(co, CodeBase)
        rec["meta"] = "%r %r %r %r %r %r" % (tuple(version), ts, magic_int, is_pypy, size, sip)
        try:
            opc = get_opcode(version, is_pypy)
        except Exception as e:
            out["files"][label] = {"load": "get_opcode-raises:" + type(e).__name__}
            continue

        def safe(fn):
            try:
                return fn()
            except BaseException as e:
                if isinstance(e, (KeyboardInterrupt, SystemExit)):
                    raise
                return "raises:%s" % type(e).__name__

        rec["tree"] = safe(lambda: tree_render(co, V))
        rec["stream"] = safe(lambda: stream_render(co, opc, V))
        for fmt in formats:
            def lst():
                buf = io.StringIO()
                disassemble_file(pyc, outstream=buf, asm_format=fmt)
                return mask_listing(buf.getvalue())
            rec["listing:" + fmt] = safe(lst)
        if native:
            # other loader paths for a file of the host's own version
            with open(pyc, "rb") as f:
                data = f.read()
            hl = 16 if V >= (3, 7) else (12 if V >= (3, 3) else 8)

            def portable():
                return portable_load(data, hl, magic2int(data[:4]))[0]

            pco = safe(portable)
            if isinstance(pco, str):
                rec["tree@load_code"] = pco
            else:
                rec["tree@load_code"] = safe(lambda: tree_render(pco, V))
                rec["stream@load_code"] = safe(lambda: stream_render(pco, opc, V))
                for fmt in formats:
                    if fmt == "header":
                        continue

                    def lst2():
                        buf = io.StringIO()
                        disco(version, pco, ts, out=buf, is_pypy=is_pypy, magic_int=magic_int, source_size=size,
                              sip_hash=sip, asm_format=fmt)
                        return mask_listing(buf.getvalue())
                    rec["listing@load_code:" + fmt] = safe(lst2)
            rec["stream@codeType2Portable"] = safe(lambda: stream_render(codeType2Portable(co), opc, V))
        out["files"][label] = rec
    # renderings go to a side file, digests to the result
    side = args["side"]
    with open(side, "w") as f:
        json.dump(out, f)
    dig = {"host": list(HOSTV), "files": {}, "side": side}
    for label, rec in out["files"].items():
        dig["files"][label] = dict((k, sha(v.encode("utf-8", "surrogatepass"))) for k, v in rec.items())
    return dig


CMDS["digest"] = cmd_digest



# ---------------------------------------------------------------------------
# C11 hostile inputs under process observers


class StepBudget(BaseException):
    """Raised by the step monitor; deliberately not an Exception subclass."""


class CaseWatchdog(BaseException):
    """Generous per-case wall-clock watchdog: its firing is INCONCLUSIVE for that case, never a violation."""


class Observers:
    def __init__(self, repo):
        self.repo = os.path.realpath(repo)
        self.active = False
        self.events = []
        self.input = b""
        self.steps = 0
        self.budget = 1 << 60
        self.mode = None
        sys.addaudithook(self._audit)
        self.allowed_imports = None

    # -- audit events
    def _stack_is_traceback_rendering(self):
        f = sys._getframe(2)
        n = 0
        while f is not None and n < 60:
            fn = f.f_code.co_filename
            if fn.endswith(("traceback.py", "linecache.py", "tokenize.py", "ast.py")) and "/xdis/" not in fn:
                return True
            f = f.f_back
            n += 1
        return False

    def _audit(self, event, a):
        if not self.active:
            return
        try:
            if event in ("exec", "compile"):
                src = a[0] if a else None
                text = b""
                if isinstance(src, (bytes, bytearray)):
                    text = bytes(src)
                elif isinstance(src, str):
                    text = src.encode("utf-8", "replace")
                benign = self._stack_is_traceback_rendering()
                if benign and len(text) >= 8 and text.strip() and text.strip() in self.input:
                    benign = False
                if event == "exec" and not isinstance(src, (str, bytes, bytearray)):
                    # exec of a code object: benign only for import machinery of stdlib modules
                    fn = getattr(src, "co_filename", "")
                    benign = not fn.startswith(self.repo + "/test") and ("/lib/python" in fn or fn.startswith(self.repo + "/xdis") or fn.startswith("<frozen"))
                if not benign:
                    self.events.append(("code-execution:" + event, repr(src)[:120]))
            elif event == "import":
                name = a[0]
                top = name.split(".")[0]
                std = getattr(sys, "stdlib_module_names", None)
                if top == "xdis" or (std is not None and top in std) or top in ("_frozen_importlib", "_frozen_importlib_external"):
                    return
                if std is None:
                    return  # cannot judge on hosts without sys.stdlib_module_names
                self.events.append(("import:" + top, name))
            elif event == "open":
                path, mode, flags = a[0], a[1], a[2]
                writing = False
                if isinstance(mode, str) and any(c in mode for c in "wax+"):
                    writing = True
                if isinstance(flags, int) and flags & (os.O_WRONLY | os.O_RDWR | os.O_CREAT | os.O_TRUNC | os.O_APPEND):
                    writing = True
                if writing:
                    self.events.append(("open-for-write", "%r %r" % (path, mode)))
            elif event in ("os.remove", "os.rename", "os.mkdir", "os.rmdir", "os.chmod", "os.chown", "os.symlink", "os.link",
                           "os.truncate", "shutil.rmtree", "shutil.move", "shutil.copyfile", "os.system", "subprocess.Popen",
                           "os.exec", "os.posix_spawn", "os.fork", "socket.connect", "socket.bind", "socket.__new__",
                           "urllib.Request", "ctypes.dlopen", "marshal.loads", "pickle.find_class"):
                if event == "marshal.loads":
                    return  # the native fast path is part of load_module
                self.events.append((event, repr(a)[:120]))
        except Exception:
            pass

    # -- logical step counter
    def start_steps(self):
        mon = getattr(sys, "monitoring", None)
        if mon is not None:
            self.mode = "sys.monitoring"
            tid = mon.DEBUGGER_ID
            try:
                mon.use_tool_id(tid, "verif-steps")
            except ValueError:
                pass
            E = mon.events
            obs = self

            def on_start(code, off):
                if not code.co_filename.startswith(obs.repo):
                    return mon.DISABLE
                obs.steps += 1
                if obs.steps > obs.budget and obs.active:
                    obs.budget = 1 << 60
                    raise StepBudget()

            def on_jump(code, off, dst):
                if not code.co_filename.startswith(obs.repo):
                    return mon.DISABLE
                obs.steps += 1
                if obs.steps > obs.budget and obs.active:
                    obs.budget = 1 << 60
                    raise StepBudget()

            mon.register_callback(tid, E.PY_START, on_start)
            mon.register_callback(tid, E.JUMP, on_jump)
            mon.register_callback(tid, E.BRANCH, on_jump)
            mon.set_events(tid, E.PY_START | E.JUMP | E.BRANCH)
        else:
            # No step counter on hosts without sys.monitoring: a sys.setprofile
            # callback adds Python frames while the interpreter is unwinding a
            # RecursionError, which on 3.8/3.9 turns a clean RecursionError
            # into "Fatal Python error: Cannot recover from stack overflow" -
            # a crash manufactured by the monitor, not by xdis (observed and
            # corrected; see DESIGN.md s8).  Steps are judged on the 3.12 host.
            self.mode = "none"


def raise_site(tb, repo):
    """Innermost frame inside the repository (mechanism, not case)."""
    site = None
    for fr in traceback.extract_tb(tb):
        if "/xdis/" in fr.filename:
            site = "%s:%s" % (os.path.basename(fr.filename), fr.name)
    return site or "?"


def cmd_hostile(args):
    import random
    import tracemalloc

    from vf.gen import mutate as MU
    from xdis.load import load_module

    acc = Acc()
    rng = random.Random("%s|%s" % (args["seed"], args["part"]))
    try:
        # keep a hostile length field from really consuming the machine: an
        # allocation beyond this fails with MemoryError inside the call
        import resource

        lim = args.get("rlimit_as", 4 << 30)
        resource.setrlimit(resource.RLIMIT_AS, (lim, lim))
        acc.count("c11_rlimit_as_bytes", lim)
    except Exception:
        pass
    from xdis.magics import PYTHON_MAGIC_INT
    import struct as _struct
    import signal as _signal

    def _on_alarm(signum, frame):
        raise CaseWatchdog()

    _signal.signal(_signal.SIGALRM, _on_alarm)
    obs = Observers(REPO)
    obs.start_steps()
    acc.count("c11_step_counter_" + obs.mode.replace(".", "_"))
    workdir = args["workdir"]
    os.makedirs(workdir, exist_ok=True)
    case_path = os.path.join(workdir, "case.pyc")
    a_steps, b_steps = args.get("steps_per_byte", 60), args.get("steps_base", 50000)
    c_mem, d_mem = args.get("mem_per_byte", 200), args.get("mem_base", 16 << 20)
    valid_digests = set()

    def cases():
        if args.get("nonbytecode"):
            for c in MU.non_bytecode(rng):
                yield c
        if args.get("adversarial"):
            for c in MU.adversarial(rng, big=args.get("big", False)):
                yield c
            # deep back-reference chains whose top level must be hashed (in a forked child: see below)
            for depth in (2000, 200000):
                yield "adversarial:ref-chain-hash:%d" % depth, MU.ref_chain((3, 8) if HOSTV != (3, 8) else (3, 4), depth)
            for c in MU.dropbox_streams(rng):
                yield c
            for c in MU.type_confusion(rng):
                yield c
            for c in MU.dropbox_headers(rng):
                pad = c[1] + b"\0" * max(0, 60 - len(c[1]))  # load_module refuses files below 50 bytes outright
                yield c[0], pad
        for sp in args["seeds"]:
            with open(sp, "rb") as f:
                data = f.read()
            valid_digests.add(sha(data))
            yield "valid", data
            for c in MU.prefixes(data, rng, args["prefix_limit"]):
                yield c
            n = len(data)
            k = min(n, args["positions"])
            if data[:2] == b"\xb7\xf2":
                k = min(n, max(k, 300))  # the dropbox reader is a parser of its own: denser byte coverage
            pos = list(range(n)) if k >= n else sorted(set([0, 1, 2, 3, 4, 5, 6, 7, 8, 12, 16, 17, 20] + [rng.randrange(n) for _ in range(k)]))
            pos = [p for p in pos if p < n]
            for c in MU.byte_mutations(data, rng, pos):
                yield c
            for c in MU.insert_delete(data, rng, args["insdel"]):
                yield c

    ncase = 0
    maxratio = 0.0
    if args.get("isolate"):
        # pin the culprit of a dead worker: one forked child per case, no monitors inside
        import signal as _signal

        for label, data in cases():
            ncase += 1
            with open(case_path, "wb") as f:
                f.write(data)
            pid = os.fork()
            if pid == 0:
                code = 0
                _signal.signal(_signal.SIGALRM, _signal.SIG_DFL)
                _signal.alarm(20)  # wall-clock watchdog: the child is killed by SIGALRM (inconclusive, not a crash)
                try:
                    try:
                        load_module(case_path)
                    except ImportError:
                        code = 0
                    except BaseException:
                        code = 3
                finally:
                    os._exit(code)
            _, st = os.waitpid(pid, 0)
            acc.evaluations += 1
            if os.WIFSIGNALED(st) and os.WTERMSIG(st) == _signal.SIGALRM:
                acc.count("c11_case_watchdog_fired_inconclusive")
                if acc.counters["c11_case_watchdog_fired_inconclusive"] >= 5:
                    break
            elif os.WIFSIGNALED(st):
                sig = os.WTERMSIG(st)
                native = len(data) >= 2 and _struct.unpack("<H", data[:2])[0] == PYTHON_MAGIC_INT
                cls = label.split(":v")[0] if label.startswith("adversarial") else label
                acc.mismatch("C11|interpreter-crash:signal-%d|%s|%s" % (sig, "native-marshal-fast-path" if native else "xdis-unmarshaller", cls),
                             host=vs(HOSTV), size=len(data), hex=C.hexs(data[:600]), klass=label)
        acc.count("c11_isolated_cases", ncase)
        return acc.result()
    for label, data in cases():
        ncase += 1
        with open(case_path, "wb") as f:
            f.write(data)
        native_case = len(data) >= 2 and _struct.unpack("<H", data[:2])[0] == PYTHON_MAGIC_INT and label != "valid"
        risky_case = label.startswith("adversarial:ref-chain-hash")

        wd_s = [args.get("case_watchdog_s", 20)]
        if os.environ.get("VERIF_TRACE_CASES"):
            with open(os.environ["VERIF_TRACE_CASES"], "a") as _tf:
                _tf.write("%s %d\n" % (label, len(data)))

        def one_case():
            before = set(os.listdir(workdir))
            obs.input = data
            obs.events = []
            obs.steps = 0
            obs.budget = a_steps * len(data) + b_steps
            trace_mem = label.startswith("adversarial") or ncase % 25 == 0
            if trace_mem:
                tracemalloc.start()
            outcome = None
            err = None
            obs.active = True
            _signal.setitimer(_signal.ITIMER_REAL, wd_s[0])
            try:
                try:
                    r = load_module(case_path)
                    outcome = "tuple" if isinstance(r, tuple) and len(r) == 7 else "other-return:%s" % type(r).__name__
                except ImportError:
                    outcome = "ImportError"
                except StepBudget:
                    outcome = "step-budget"
                except CaseWatchdog:
                    outcome = "watchdog"
                except BaseException as e:
                    if isinstance(e, KeyboardInterrupt):
                        raise
                    outcome = "escape"
                    err = (type(e).__name__, raise_site(sys.exc_info()[2], REPO), str(e)[:120])
                # the header-only form of the same call (it skips some of the checks the full form makes first)
                err2 = None
                if outcome in ("tuple", "ImportError", "escape"):
                    try:
                        r2 = load_module(case_path, get_code=False)
                        if not (isinstance(r2, tuple) and len(r2) == 7):
                            err2 = ("other-return", type(r2).__name__, "")
                    except ImportError:
                        pass
                    except (StepBudget, CaseWatchdog):
                        pass
                    except BaseException as e:
                        if isinstance(e, KeyboardInterrupt):
                            raise
                        err2 = (type(e).__name__, raise_site(sys.exc_info()[2], REPO), str(e)[:120])
            finally:
                _signal.setitimer(_signal.ITIMER_REAL, 0)
                obs.active = False
            peak = None
            if trace_mem:
                peak = tracemalloc.get_traced_memory()[1]
                tracemalloc.stop()
            after = set(os.listdir(workdir))
            return {"outcome": outcome, "err": err, "err2": err2, "peak": peak, "steps": obs.steps, "events": [list(e) for e in obs.events],
                    "new": sorted(after - before)[:5], "gone": sorted(before - after)[:5]}

        if native_case or risky_case:
            # the built-in marshal (fast path) can take the whole interpreter down on corrupt input, and so can C-level
            # recursion on a hostile object graph: observe such cases from outside, in a forked child
            rr, st = in_child2(one_case)
            if rr is None:
                acc.evaluations += 1
                acc.count("outcome:interpreter-crash")
                sig = os.WTERMSIG(st) if os.WIFSIGNALED(st) else -1
                cls0 = label.split(":v")[0] if label.startswith("adversarial") else label
                if risky_case:
                    cls0 = "adversarial:ref-chain-hash"
                acc.mismatch("C11|interpreter-crash:signal-%d|%s|%s" % (sig, "native-marshal-fast-path" if native_case else "xdis-unmarshaller", cls0),
                             host=vs(HOSTV), size=len(data), hex=C.hexs(data[:200]), klass=label)
                continue
        else:
            rr = one_case()
        if rr["outcome"] == "watchdog":
            # wall clock is no verdict on a loaded machine: the case gets a second run with ten times the allowance; only a
            # case that exhausts that as well is reported (as inconclusive)
            acc.count("c11_case_watchdog_first_firing_retried")
            wd_s[0] *= 10
            try:
                rr = one_case()
            finally:
                wd_s[0] //= 10
        outcome, err, peak, steps = rr["outcome"], rr["err"], rr["peak"], rr["steps"]
        events = rr["events"]
        fs_new, fs_gone = rr["new"], rr["gone"]
        acc.evaluations += 1
        acc.count("outcome:" + outcome)
        cls = label.split(":v")[0] if label.startswith("adversarial") else label.split("-")[0] if label.startswith("nonbytecode:magic") else label
        if label != "valid" and sha(data) not in valid_digests:
            acc.distinct.add(sha(data))
        wit = {"class": label, "size": len(data), "hex_head": C.hexs(data[:48])}
        acc.count("c11_header_only_calls")
        if label.startswith("adversarial:"):
            acc.count("c11_cases_adversarial:" + label.split(":")[1])
        else:
            acc.count("c11_cases_" + label.split(":")[0].split("-")[0])
        if rr.get("err2"):
            e2 = rr["err2"]
            acc.mismatch("C11|escape:%s@%s|get_code=False" % (e2[0], e2[1]), msg=e2[2], **wit)
        if outcome == "escape":
            acc.mismatch("C11|escape:%s@%s" % (err[0], err[1]), msg=err[2], **wit)
        elif outcome.startswith("other-return"):
            acc.mismatch("C11|%s" % outcome, **wit)
        elif outcome == "step-budget":
            acc.mismatch("C11|step-budget-exceeded|%s" % cls, budget=a_steps * len(data) + b_steps, **wit)
        elif outcome == "watchdog":
            acc.count("c11_case_watchdog_fired_inconclusive")
            if acc.counters["c11_case_watchdog_fired_inconclusive"] >= 5:
                # this host has no step counter and keeps hitting the wall-clock watchdog: stop here (inconclusive for
                # this worker; the workers on the 3.12 host judge the same mechanisms by logical steps)
                acc.count("c11_worker_stopped_after_repeated_watchdog")
                break
        if len(data):
            maxratio = max(maxratio, steps / float(len(data) + 1000))
        if peak is not None:
            acc.count("c11_memory_traced_cases")
            if peak > c_mem * len(data) + d_mem:
                native = len(data) >= 2 and _struct.unpack("<H", data[:2])[0] == PYTHON_MAGIC_INT
                acc.mismatch("C11|memory-bound-exceeded|%s|%s" % ("native-marshal-fast-path" if native else "xdis-unmarshaller", cls),
                             peak=peak, bound=c_mem * len(data) + d_mem, **wit)
        for ev, info in events:
            acc.mismatch("C11|audit:%s" % ev, info=info, **wit)
        if fs_new or fs_gone:
            acc.mismatch("C11|filesystem-changed", new=fs_new, gone=fs_gone, **wit)
        if outcome == "ImportError" and "RecursionError" in "":
            pass
        if len(acc.samples) < 4 and label not in ("valid",) and ncase % 7 == 0:
            acc.sample({"class": label, "size": len(data), "outcome": outcome, "steps": steps})
    acc.counters["c11_max_steps_per_byte_x1000"] = int(maxratio * 1000)
    try:
        os.unlink(case_path)
    except OSError:
        pass
    return acc.result()


CMDS["hostile"] = cmd_hostile


def cmd_scaling(args):
    """Growth of CPU time of load_module on n-element containers of 1-byte
    objects: doubling n must not (consistently) more than triple the time."""
    import time

    from vf.gen import mutate as MU
    from xdis.load import load_module

    acc = Acc()
    make = MU.big_containers(tuple(args.get("version", (3, 8))))
    workdir = args["workdir"]
    os.makedirs(workdir, exist_ok=True)
    p = os.path.join(workdir, "scale.pyc")
    for code in args["codes"]:
        times = []
        for n in args["sizes"]:
            with open(p, "wb") as f:
                f.write(make(code, n))
            best = None
            for _ in range(2):
                t = time.process_time()
                try:
                    load_module(p)
                except ImportError:
                    pass
                dt = time.process_time() - t
                best = dt if best is None else min(best, dt)
            times.append(best)
        acc.evaluations += 1
        ratios = [times[i + 1] / max(times[i], 1e-4) for i in range(len(times) - 1)]
        acc.sample({"type_code": code, "sizes": args["sizes"], "cpu_s": [round(t, 3) for t in times], "ratios": [round(r, 2) for r in ratios]}, limit=20)
        acc.distinct.add(sha(["scaling", code]))
        if len(ratios) >= 2 and all(r > 3.0 for r in ratios[-2:]) and times[-1] > 0.5:
            acc.mismatch("C11|superlinear-time|container:%s" % code, sizes=args["sizes"], cpu_s=[round(t, 3) for t in times])
    # hostile DAG: every level refers twice to the level below; hashing it naively costs 2^depth
    times = []
    depths = args.get("dag_depths", [20, 23, 26])
    for d in depths:
        with open(p, "wb") as f:
            f.write(MU.ref_chain((3, 8) if HOSTV != (3, 8) else (3, 4), d, fanout=2))
        t = time.process_time()
        try:
            load_module(p)
        except ImportError:
            pass
        times.append(time.process_time() - t)
    acc.evaluations += 1
    acc.sample({"type_code": "dag-hash", "depths": depths, "cpu_s": [round(t, 3) for t in times]}, limit=20)
    acc.distinct.add(sha(["scaling", "dag-hash"]))
    if times[-1] > 0.3 and times[-1] > 4 * max(times[-2], 1e-3) and times[-2] > 4 * max(times[-3], 1e-3) * 0.5:
        acc.mismatch("C11|superlinear-time|dag-hash", depths=depths, cpu_s=[round(t, 3) for t in times],
                     file_bytes=len(MU.ref_chain((3, 8), depths[-1], fanout=2)))
    try:
        os.unlink(p)
    except OSError:
        pass
    return acc.result()


CMDS["scaling"] = cmd_scaling



# ---------------------------------------------------------------------------
# C06 pyc header decoding


def cmd_headers(args):
    from xdis.load import load_module

    acc = Acc()
    for it in args["items"]:
        pyc, exp = it["pyc"], it["expect"]
        acc.evaluations += 1
        tag = "v%s|%s" % (exp["vtag"], exp["form"])
        try:
            r = load_module(pyc, get_code=it.get("get_code", True))
        except BaseException as e:
            if isinstance(e, (KeyboardInterrupt, SystemExit)):
                raise
            acc.mismatch("C06|load_module-raises:%s|%s" % (type(e).__name__, tag), file=it["label"], msg=str(e)[-200:])
            continue
        (version, ts, magic_int, co, is_pypy, size, sip) = r
        if tuple(version[:2]) != tuple(exp["version"]):
            acc.mismatch("C06|version|%s" % tag, file=it["label"], expected=exp["version"], observed=list(version))
        if magic_int != exp["magic"] and not (exp["magic"] == 48 and magic_int == 3187):
            # (PyPy 3.2 stores the odd magic 48; xdis documents reporting it as 3180+7)
            acc.mismatch("C06|magic|%s" % tag, file=it["label"], expected=exp["magic"], observed=magic_int)
        for name, got in (("timestamp", ts), ("source_size", size), ("sip_hash", sip)):
            want = exp[name]
            if got != want:
                kind = "present-but-should-be-absent" if want is None else ("absent-but-should-be-present" if got is None else "value")
                acc.mismatch("C06|%s|%s|%s" % (name, kind, tag), file=it["label"], expected=want, observed=got,
                             flags=exp.get("flags"))
        if it.get("get_code", True) and it.get("payload_magic_int") is not None:
            # the code object is the one that starts right after the header
            try:
                with open(it["payload_file"], "rb") as f:
                    payload = f.read()
                import xdis.unmarshal as um
                from xdis.codetype.base import CodeBase

                ref = um.load_code(io.BytesIO(payload), it["payload_magic_int"])
                V = tuple(exp["version"])
                a = C.short(C.canon(ref, V, "full"))
                b = C.short(C.canon(co, V, "full"))
                if a != b:
                    acc.mismatch("C06|code-not-right-after-header|%s" % tag, file=it["label"])
            except Exception as e:
                acc.count("c06_payload_reference_unavailable")
        acc.distinct.add(sha([exp["magic"], exp["form"], exp.get("flags"), exp["timestamp"], exp["source_size"], exp["sip_hash"]]))
        if len(acc.samples) < 4:
            acc.sample({"file": it["label"], "expect": exp})
    return acc.result()


CMDS["headers"] = cmd_headers



# ---------------------------------------------------------------------------
# C10 synthesised marshal encodings


def cmd_marshsynth(args):
    import binascii

    import xdis.unmarshal as um

    acc = Acc()
    V = tuple(args["version"])
    magic_int = args["magic_int"]
    with open(args["streams"]) as f:
        streams = json.load(f)
    truths = []
    with open(args["truth"]) as f:
        for line in f:
            line = line.strip()
            if line:
                truths.append(json.loads(line))
    if len(truths) != len(streams):
        acc.count("c10_truth_incomplete")
    for st, tr in zip(streams, truths):
        if not tr.get("ok"):
            acc.count("c10_stream_rejected_by_reference:" + tr.get("error", "?"))
            continue
        acc.evaluations += 1
        data = binascii.unhexlify(st["hex"])
        labels = st["labels"]
        for l in labels:
            if l.startswith("big:"):
                acc.count("c10_string_above_64KiB_decoded:" + l.split(":")[1])
        try:
            fp = io.BytesIO(data)
            co = um.load_code(fp, magic_int)
            consumed = fp.tell()
            got = C.canon(co.co_consts, V, "full")
        except BaseException as e:
            if isinstance(e, (KeyboardInterrupt, SystemExit)):
                raise
            tbs = traceback.extract_tb(sys.exc_info()[2])
            site = [t.name for t in tbs if "/xdis/" in t.filename]
            base = sorted(set(l.rstrip("*") for l in labels))
            acc.mismatch("C10|v%s|raises:%s@%s|elems=%s" % (vs(V), type(e).__name__, site[-1] if site else "?",
                                                           ",".join(base) if len(base) <= 2 else "multi"),
                         labels=labels, hex=st["hex"][:400], msg=str(e)[:120])
            continue
        want = tr["canon"]
        if got != want:
            d = C.first_diff(want, got, "co_consts")
            where, a, b = d
            m = _re.match(r"co_consts/(\d+)", where)
            lab = labels[int(m.group(1))] if m and int(m.group(1)) < len(labels) else "?"
            ka, kb = C.kind_of(a), C.kind_of(b)
            what = "kind:%s->%s" % (ka, kb) if ka != kb else ("length" if "/len" in where else "value:%s" % ka)
            acc.mismatch("C10|v%s|%s|elem=%s" % (vs(V), what, lab), where=where, labels=labels, expected=json.dumps(a)[:160],
                         observed=json.dumps(b)[:160], hex=st["hex"][:400])
        elif consumed != len(data):
            acc.mismatch("C10|v%s|consumed" % vs(V), expected=len(data), observed=consumed, labels=labels)
        if any(("*" in l) or ("ref->" in l) or l.split(":")[0] not in ("singleton",) for l in labels):
            acc.distinct.add(sha([st["labels"], st["codes"]]))
        if len(acc.samples) < 3:
            acc.sample({"version": vs(V), "labels": labels, "type_codes": st["codes"], "nbytes": len(data)})
    return acc.result()


CMDS["marshsynth"] = cmd_marshsynth



# ---------------------------------------------------------------------------
# C19 freeze() line tables


def make_portable(ctype, n, firstlineno, table):
    from xdis.codetype.code20 import Code2
    from xdis.codetype.code30 import Code3
    from xdis.codetype.code38 import Code38
    from xdis.codetype.code310 import Code310

    wide = ctype in ("Code3@3.7", "Code38", "Code310")
    code = bytes([9, 0] * (n // 2)) if wide else bytes([9] * n)
    common = dict(co_argcount=0, co_nlocals=0, co_stacksize=1, co_flags=64, co_code=code, co_consts=(None,), co_names=(),
                  co_varnames=(), co_filename="<freeze>", co_name="f", co_firstlineno=firstlineno, co_freevars=(), co_cellvars=())
    if ctype == "Code2":
        return Code2(co_lnotab=table, **common)
    if ctype.startswith("Code3@"):
        return Code3(co_kwonlyargcount=0, co_lnotab=table, **common)
    if ctype == "Code38":
        return Code38(co_posonlyargcount=0, co_kwonlyargcount=0, co_lnotab=table, **common)
    if ctype == "Code310":
        return Code310(co_posonlyargcount=0, co_kwonlyargcount=0, co_linetable=table, **common)
    raise ValueError(ctype)


DECODER_VERSION = {"Code2": (2, 7), "Code3@3.5": (3, 5), "Code3@3.7": (3, 7), "Code38": (3, 8), "Code310": (3, 10)}


def cmd_freeze(args):
    from xdis.disasm import get_opcode

    out = {"cases": []}
    for c in args["cases"]:
        ctype = c["ctype"]
        pairs = list(zip(c["offsets"], c["lines"]))
        table = dict(pairs) if c["form"] == "dict" else [tuple(p) for p in pairs]
        rec = {}
        try:
            p = make_portable(ctype, c["code_len"], c.get("firstlineno", c["lines"][0]), table)
            if c.get("refreeze"):
                # the object has been frozen once already with another (trivial) table; the real mapping is supplied
                # afterwards through replace() and frozen again
                attr = "co_linetable" if ctype == "Code310" else "co_lnotab"
                p0 = make_portable(ctype, c["code_len"], c.get("firstlineno", c["lines"][0]), {0: c.get("firstlineno", c["lines"][0])})
                p0 = p0.freeze()
                p = p0.replace(**{attr: table})
            p = p.freeze()
            enc = p.co_linetable if ctype == "Code310" else p.co_lnotab
            if isinstance(enc, str):
                enc = enc.encode("latin-1")
            rec["table"] = C.hexs(enc)
            opc = get_opcode(DECODER_VERSION[ctype], False)
            rec["decoded"] = [list(x) for x in opc.findlinestarts(p)]
        except BaseException as e:
            if isinstance(e, (KeyboardInterrupt, SystemExit)):
                raise
            tb = traceback.extract_tb(sys.exc_info()[2])
            site = [t.name for t in tb if "/xdis/" in t.filename]
            rec["error"] = "%s@%s" % (type(e).__name__, site[-1] if site else "?")
            rec["msg"] = str(e)[:120]
        out["cases"].append(rec)
    return out


CMDS["freeze"] = cmd_freeze



# ---------------------------------------------------------------------------
# C13 read-then-write


def cmd_rewrite(args):
    from xdis.load import load_module, write_bytecode_file

    out = {"items": []}
    for it in args["items"]:
        rec = {"pyc": it["pyc"], "new": it["new"]}
        try:
            (version, ts, magic_int, co, is_pypy, size, sip) = load_module(it["pyc"])
            rec["native"] = not hasattr(co, "freeze")
            rec["tree"] = sha(C.nan_norm(C.canon(co, tuple(version[:2]), "full")))
        except BaseException as e:
            if isinstance(e, (KeyboardInterrupt, SystemExit)):
                raise
            rec["load_error"] = type(e).__name__
            out["items"].append(rec)
            continue
        try:
            write_bytecode_file(it["new"], co, magic_int, compilation_ts=ts or 1, filesize=size or 0)
            rec["written"] = True
        except BaseException as e:
            if isinstance(e, (KeyboardInterrupt, SystemExit)):
                raise
            tb = traceback.extract_tb(sys.exc_info()[2])
            site = [t.name for t in tb if "/xdis/" in t.filename]
            rec["written"] = False
            rec["refused"] = "%s@%s" % (type(e).__name__, site[-1] if site else "?")
            try:
                os.unlink(it["new"])
            except OSError:
                pass
            out["items"].append(rec)
            continue
        # xdis reads its own output back
        try:
            (v2, ts2, m2, co2, p2, s2, h2) = load_module(it["new"])
            rec["reread_tree"] = sha(C.nan_norm(C.canon(co2, tuple(v2[:2]), "full")))
            rec["reread_magic_ok"] = (m2 == magic_int)
            if rec["reread_tree"] != rec["tree"]:
                d = C.first_diff(C.nan_norm(C.canon(co, tuple(version[:2]), "full")), C.nan_norm(C.canon(co2, tuple(v2[:2]), "full")), "")
                flds = [p for p in d[0].split("/") if p.startswith("co_")]
                rec["reread_diff"] = ["x " + (flds[-1] if flds else "?"), d[0], json.dumps(d[1])[:160], json.dumps(d[2])[:160]]
        except BaseException as e:
            if isinstance(e, (KeyboardInterrupt, SystemExit)):
                raise
            rec["reread_error"] = type(e).__name__ + ": " + str(e)[-120:]
        out["items"].append(rec)
    return out


CMDS["rewrite"] = cmd_rewrite



# ---------------------------------------------------------------------------
# C18 history independence: fresh-process model + state digests


def state_digest():
    """{name: sha1} over every module-level table a later call reads."""
    import types

    out = {}
    mods = [m for n, m in sorted(sys.modules.items()) if n.startswith("xdis.opcodes.opcode_") and m is not None]

    def dump(v, depth=0):
        if depth > 4:
            return "<deep>"
        if isinstance(v, (int, str, bytes, float, bool)) or v is None:
            return repr(v)
        if isinstance(v, (list, tuple)):
            return "[" + ",".join(dump(x, depth + 1) for x in v) + "]"
        if isinstance(v, (set, frozenset)):
            return "{" + ",".join(sorted(dump(x, depth + 1) for x in v)) + "}"
        if isinstance(v, dict):
            items = []
            for k, x in v.items():
                if isinstance(x, (types.FunctionType, types.ModuleType, type)) or callable(x):
                    items.append(dump(k, depth + 1) + ":<callable %s>" % getattr(x, "__name__", "?"))
                else:
                    items.append(dump(k, depth + 1) + ":" + dump(x, depth + 1))
            return "{" + ",".join(sorted(items)) + "}"
        return "<%s>" % type(v).__name__

    for m in mods:
        short = m.__name__.split(".")[-1]
        for k, v in sorted(vars(m).items()):
            if k.startswith("__") or k == "loc":
                continue
            if isinstance(v, (list, tuple, set, frozenset, dict, int, str)) and not isinstance(v, bool):
                out["%s.%s" % (short, k)] = sha(dump(v))
    import xdis.magics as M
    import xdis.op_imports as OI
    import xdis.opcodes.base as B
    import xdis.std as S

    for k in ("magics", "by_magic", "by_version", "magicint2version", "versions", "canonic_python_version"):
        out["magics." + k] = sha(dump(getattr(M, k)))
    out["base.fields2copy"] = sha(dump(B.fields2copy))
    out["op_imports.op_imports"] = sha(dump(dict((str(k), v.__name__) for k, v in OI.op_imports.items())))
    api = S._std_api
    for k in ("hasconst", "hasname", "opmap", "opname", "EXTENDED_ARG", "HAVE_ARGUMENT", "python_version_tuple"):
        out["std._std_api." + k] = sha(dump(getattr(api, k)))
    out["std._std_api.opc"] = api.opc.__name__
    # class-level dispatch tables of the marshal re-implementation (read by every later dumps / loads)
    import xdis.marsh as XM
    import xdis.unmarshal as UM

    def fn_names(d):
        return sha(dump(dict((str(k), getattr(v, "__qualname__", getattr(v, "__name__", repr(type(v))))) for k, v in d.items())))

    out["marsh._Marshaller.dispatch"] = fn_names(XM._Marshaller.dispatch)
    out["marsh._Unmarshaller.dispatch"] = fn_names(XM._Unmarshaller.dispatch)
    out["marsh._FastUnmarshaller.dispatch"] = fn_names(XM._FastUnmarshaller.dispatch)
    out["marsh._load_dispatch"] = fn_names(XM._load_dispatch)
    out["unmarshal.UNMARSHAL_DISPATCH_TABLE"] = sha(dump(UM.UNMARSHAL_DISPATCH_TABLE))
    # process-level settings a library call must leave alone
    out["process.recursionlimit"] = str(sys.getrecursionlimit())
    if hasattr(sys, "get_int_max_str_digits"):
        out["process.int_max_str_digits"] = str(sys.get_int_max_str_digits())
    out["process.cwd"] = os.getcwd()
    out["process.environ"] = sha(dump(dict(os.environ)))
    out["process.sys.path"] = sha(dump(list(sys.path)))
    return out


def run_op(op):
    """Execute one public operation; return a digest string of its result (+ captured output)."""
    import random

    from xdis.disasm import disassemble_file, get_opcode
    from xdis.load import load_module
    from xdis.op_imports import get_opcode_module
    from xdis.std import make_std_api

    kind = op["op"]
    with FdWatch() as w:
        try:
            if kind == "load_module":
                (version, ts, magic_int, co, is_pypy, size, sip) = load_module(op["file"])
                res = "%r %r %r %r %r %r\n" % (tuple(version), ts, magic_int, is_pypy, size, sip) + tree_render(co, tuple(version[:2]))
            elif kind == "disassemble_file":
                buf = io.StringIO()
                disassemble_file(op["file"], outstream=buf, asm_format=op["fmt"])
                res = mask_listing(buf.getvalue())
            elif kind == "get_opcode":
                res = json.dumps(table_dump(get_opcode(tuple(op["version"]), op.get("pypy", False))), sort_keys=True)
            elif kind == "get_opcode_module":
                if op.get("variant"):
                    res = json.dumps(table_dump(get_opcode_module(tuple(op["version"]), op["variant"])), sort_keys=True)
                else:
                    res = json.dumps(table_dump(get_opcode_module(tuple(op["version"]))), sort_keys=True)
            elif kind == "make_std_api":
                api = make_std_api(tuple(op["version"]), op.get("variant")) if op.get("variant") else make_std_api(tuple(op["version"]))
                res = json.dumps([sorted(api.opmap.items()), list(api.opname), sorted(api.hasconst), sorted(api.hasname),
                                  api.HAVE_ARGUMENT, api.EXTENDED_ARG, list(api.python_version_tuple)])
                if op.get("file"):
                    (version, ts, magic_int, co, is_pypy, size, sip) = load_module(op["file"])
                    res += "\n" + "\n".join(repr(inst_tuple(i, tuple(version[:2]))) for i in api.get_instructions(co))
            elif kind == "bytecode":
                (version, ts, magic_int, co, is_pypy, size, sip) = load_module(op["file"])
                res = stream_render(co, get_opcode(version, is_pypy), tuple(version[:2]))
            elif kind == "marsh_loads_py2":
                # xdis.marsh.loads on the marshal payload of a real Python 2 file (interned 't' strings and 'R' references)
                import xdis.marsh as xm

                with open(op["file"], "rb") as f:
                    data = f.read()
                co = xm.loads(data[8:])
                res = tree_render(co, (2, 7))
            elif kind == "marsh":
                import xdis.marsh as xm
                from vf.gen import values as GV

                v = GV.value(random.Random(op["vseed"]))
                if op.get("target"):
                    # marshal for another target version (what write_bytecode_file does)
                    try:
                        b = xm.dumps(v, python_version=tuple(op["target"]))
                        # order-insensitive digest: the iteration order of a set holding NaN objects depends on their
                        # identity (hash(nan) is id-based from 3.10), which is Python's business, not xdis state
                        res = "target:%d:%s" % (len(b), sha(bytes(sorted(b))) if isinstance(b, (bytes, bytearray)) else repr(b))
                    except Exception as e:
                        res = "target-raises:" + type(e).__name__
                else:
                    b = xm.dumps(v)
                    mm = __import__("marshal")
                    res = json.dumps(C.nan_norm(C.canon(mm.loads(b), HOSTV, "full"))) + " " + \
                        json.dumps(C.nan_norm(C.canon(xm.loads(mm.dumps(v, 0)), HOSTV, "full")))
            else:
                res = "unknown-op"
        except BaseException as e:
            if isinstance(e, (KeyboardInterrupt, SystemExit)):
                raise
            res = "raises:%s" % type(e).__name__
    return sha(res.encode("utf-8", "surrogatepass")), w.out, w.err


def in_child(fn):
    """Run fn() in a forked child (a process with exactly the parent's state,
    i.e. xdis freshly imported and nothing else done) and return its JSON result."""
    r, wfd = os.pipe()
    pid = os.fork()
    if pid == 0:
        status = 0
        try:
            os.close(r)
            # a fresh process also means a temp directory nobody has used yet
            import tempfile

            d = tempfile.mkdtemp(prefix="child-")
            tempfile.tempdir = d
            os.environ["TMPDIR"] = d
            data = json.dumps(fn()).encode("utf-8")
            with os.fdopen(wfd, "wb") as f:
                f.write(data)
        except BaseException:
            status = 1
        os._exit(status)
    os.close(wfd)
    chunks = []
    with os.fdopen(r, "rb") as f:
        chunks.append(f.read())
    _, st = os.waitpid(pid, 0)
    if st != 0 or not chunks[0]:
        return None
    return json.loads(chunks[0].decode("utf-8"))


def in_child2(fn):
    """Like in_child, but returns (result or None, wait status)."""
    r, wfd = os.pipe()
    pid = os.fork()
    if pid == 0:
        status = 0
        try:
            os.close(r)
            data = json.dumps(fn()).encode("utf-8")
            with os.fdopen(wfd, "wb") as f:
                f.write(data)
        except BaseException:
            status = 1
        os._exit(status)
    os.close(wfd)
    with os.fdopen(r, "rb") as f:
        buf = f.read()
    _, st = os.waitpid(pid, 0)
    if st != 0 or not buf:
        return None, st
    return json.loads(buf.decode("utf-8")), st


def cmd_history(args):
    import warnings

    warnings.simplefilter("ignore")
    # make sure everything a fresh process has after "import xdis" is loaded before forking
    import xdis.std  # noqa: F401
    import xdis.disasm  # noqa: F401
    import xdis.marsh  # noqa: F401

    acc = Acc()
    fresh_cache = {}

    def fresh(op):
        k = json.dumps(op, sort_keys=True)
        if k not in fresh_cache:
            fresh_cache[k] = in_child(lambda: list(run_op(op)))
        return fresh_cache[k]

    def opclass(op):
        return op["op"] + (":" + op["fmt"] if "fmt" in op else "")

    for hist in args["histories"]:
        ops, probe = hist["ops"], hist["probe"]

        def child():
            out = {"state_changes": [], "defaults_growth": []}
            import xdis.unmarshal as um
            d0 = len(um.load_code.__defaults__[1]) if isinstance(um.load_code.__defaults__[1], dict) else -1
            before = state_digest()
            for op in ops:
                run_op(op)
                after = state_digest()
                if after != before:
                    ch = sorted(k for k in set(before) | set(after) if before.get(k) != after.get(k))
                    out["state_changes"].append([opclass(op), ch[:8]])
                    before = after
            out["probe1"] = list(run_op(probe))
            out["probe2"] = list(run_op(probe))
            after = state_digest()
            if after != before:
                ch = sorted(k for k in set(before) | set(after) if before.get(k) != after.get(k))
                out["state_changes"].append([opclass(probe), ch[:8]])
            d1 = len(um.load_code.__defaults__[1]) if isinstance(um.load_code.__defaults__[1], dict) else -1
            out["defaults_growth"] = d1 - d0
            return out

        got = in_child(child)
        ref = fresh(probe)
        acc.evaluations += 1
        pc = opclass(probe)
        if got is None:
            acc.mismatch("C18|history-process-died|probe=%s" % pc, history=[opclass(o) for o in ops])
            continue
        if ref is None:
            acc.count("c18_fresh_reference_unavailable")
            continue
        acc.count("c18_state_digest_comparisons", len(ops) + 1)
        for opn, changed in got["state_changes"]:
            acc.mismatch("C18|state-changed-by:%s|%s" % (opn, ",".join(c.split(".")[0] + "." + c.split(".")[-1] for c in changed[:3])),
                         history=[opclass(o) for o in ops], changed=changed)
        if got["probe1"][0] != ref[0]:
            acc.mismatch("C18|result-depends-on-history|probe=%s" % pc, history=[json.dumps(o, sort_keys=True)[:120] for o in ops],
                         probe=probe)
        if got["probe1"][1:] != ref[1:]:
            acc.mismatch("C18|output-depends-on-history|probe=%s" % pc, history=[opclass(o) for o in ops], fresh=ref[1:], after=got["probe1"][1:])
        if got["probe2"] != got["probe1"]:
            acc.mismatch("C18|repeat-differs|probe=%s" % pc, history=[opclass(o) for o in ops], probe=probe)
        if got.get("defaults_growth"):
            acc.count("c18_info_load_code_default_dict_growth", got["defaults_growth"])
        if len(ops) >= 2:
            acc.distinct.add(sha([ops, probe]))
        if len(acc.samples) < 3:
            acc.sample({"history": [opclass(o) for o in ops], "probe": pc})
    return acc.result()


CMDS["history"] = cmd_history



# ---------------------------------------------------------------------------
# reference-free invariants on the historical corpus (versions without an
# installed interpreter: 1.0-2.6, 3.0-3.5, PyPy) - the weaker coverage bucket


def cmd_corpusinv(args):
    from xdis.bytecode import Bytecode
    from xdis.disasm import get_opcode
    from xdis.load import load_module

    props = set(args["props"])
    acc = Acc()
    if "C01" in props:
        MON.install_load_code()
    out_tables = []
    for item in args["files"]:
        pyc, label, vtag = item["pyc"], item["label"], item["vtag"]
        before = len(MON.load_code_pos)
        try:
            (version, ts, magic_int, co, is_pypy, size, sip) = load_module(pyc)
        except BaseException as e:
            if isinstance(e, (KeyboardInterrupt, SystemExit)):
                raise
            for p in sorted(props):
                acc.mismatch("%s|corpus|load_module-raises:%s|v%s" % (p, type(e).__name__, vtag), file=label, msg=str(e)[-160:])
            continue
        V = tuple(version[:2])
        try:
            opc = get_opcode(version, is_pypy)
        except Exception as e:
            for p in sorted(props - {"C01"}):
                acc.mismatch("%s|corpus|get_opcode-raises|v%s" % (p, vtag), file=label)
            opc = None
        if "C01" in props:
            acc.evaluations += 1
            fsize = os.path.getsize(pyc)
            for pos, end in MON.load_code_pos[before:]:
                acc.count("c01_corpus_consumed_checks")
                if pos is not None and pos != fsize:
                    acc.mismatch("C01|corpus|payload-not-fully-consumed|v%s" % vtag, file=label, position=pos, size=fsize)
            for path, c in C.walk_code(co):
                for f in C.code_fields(V):
                    v = C.get_field(c, f)
                    if v is C.Missing:
                        if V >= (1, 5) or f not in ("co_stacksize", "co_firstlineno", "co_lnotab", "co_freevars", "co_cellvars"):
                            if not (V < (2, 0) and f in ("co_freevars", "co_cellvars")):
                                acc.mismatch("C01|corpus|field-missing:%s|v%s" % (f, vtag), file=label, path=path)
                        continue
                    ok = True
                    if f in ("co_argcount", "co_posonlyargcount", "co_kwonlyargcount", "co_nlocals", "co_stacksize", "co_flags", "co_firstlineno"):
                        ok = isinstance(v, int) and not isinstance(v, bool)
                    elif f in ("co_consts", "co_names", "co_varnames", "co_freevars", "co_cellvars"):
                        # Python 1.0-1.4 really stored these as lists ('[' in the file)
                        ok = isinstance(v, tuple) or (V < (1, 5) and isinstance(v, list))
                    elif f == "co_code":
                        ok = isinstance(v, (bytes, str))
                    if not ok:
                        acc.mismatch("C01|corpus|field-type:%s:%s|v%s" % (f, type(v).__name__, vtag), file=label, path=path)
            acc.distinct.add(sha(["c01", label]))
        if opc is None:
            continue
        for path, c in C.walk_code(co):
            code = c.co_code
            n = len(code)
            try:
                insts = list(Bytecode(c, opc, dup_lines=False))
            except BaseException as e:
                if isinstance(e, (KeyboardInterrupt, SystemExit)):
                    raise
                tb = traceback.extract_tb(sys.exc_info()[2])
                for p in sorted(props & {"C02", "C04", "C05"}):
                    acc.mismatch("%s|corpus|Bytecode-raises:%s@%s|v%s" % (p, type(e).__name__, tb[-1].name, vtag), file=label, path=path)
                continue
            starts = set(i.offset for i in insts)
            if "C02" in props:
                acc.evaluations += 1
                pos = 0
                bad = None
                for i in insts:
                    if i.offset != pos:
                        bad = ("offset", i.offset, pos)
                        break
                    pos += inst_width(opc, i.opcode)
                if bad is None and pos != n:
                    bad = ("end", pos, n)
                if bad:
                    acc.mismatch("C02|corpus|tiling:%s|v%s" % (bad[0], vtag), file=label, path=path, got=bad[1], want=bad[2])
                else:
                    # folded operand = sum of EXTENDED_ARG prefixes shifted + own operand
                    ext = 0
                    shift = 16 if V < (3, 6) else 8
                    for i in insts:
                        if i.arg is None:
                            ext = 0
                            continue
                        raw = (code2(code, i.offset + 1) | (code2(code, i.offset + 2) << 8)) if V < (3, 6) else code2(code, i.offset + 1)
                        want = raw | ext
                        if i.arg != want:
                            acc.mismatch("C02|corpus|folded-operand|v%s" % vtag, file=label, path=path, offset=i.offset, expected=want, observed=i.arg)
                            break
                        ext = (want << shift) if (hasattr(opc, "EXTENDED_ARG") and i.opcode == opc.EXTENDED_ARG) else 0
                if len(insts) >= 8:
                    acc.distinct.add(sha(["c02", C.hexs(code) if isinstance(code, bytes) else str(code)]))
            if "C04" in props:
                acc.evaluations += 1
                try:
                    labels = set(opc.findlabels(code, opc))
                except Exception as e:
                    acc.mismatch("C04|corpus|findlabels-raises:%s|v%s" % (type(e).__name__, vtag), file=label, path=path)
                    labels = None
                if labels is not None:
                    targets = set(i.argval for i in insts if i.opcode in opc.JREL_OPS or i.opcode in opc.JABS_OPS)
                    if labels != targets:
                        acc.mismatch("C04|corpus|labels-vs-jump-operands|v%s" % vtag, file=label, path=path,
                                     only_labels=sorted(labels - targets)[:6], only_operands=sorted(targets - labels)[:6])
                    exc = set()
                    if V >= (3, 11) and getattr(c, "co_exceptiontable", None):
                        from xdis.bytecode import parse_exception_table
                        exc = set(e.target for e in parse_exception_table(c.co_exceptiontable))
                    for i in insts:
                        if bool(i.is_jump_target) != (i.offset in labels or i.offset in exc):
                            acc.mismatch("C04|corpus|is_jump_target-vs-labels|v%s" % vtag, file=label, path=path, offset=i.offset)
                            break
                    for lab in labels:
                        if not (lab in starts or lab == n):
                            acc.mismatch("C04|corpus|label-not-instruction-start|v%s" % vtag, file=label, path=path, label=lab)
                            break
                    if labels:
                        acc.distinct.add(sha(["c04", C.hexs(code) if isinstance(code, bytes) else str(code)]))
            if "C05" in props and V >= (1, 5):
                acc.evaluations += 1
                try:
                    ls = [tuple(x) for x in opc.findlinestarts(c)]
                except Exception as e:
                    acc.mismatch("C05|corpus|findlinestarts-raises:%s|v%s" % (type(e).__name__, vtag), file=label, path=path)
                    continue
                offs = [o for o, _ in ls]
                if offs != sorted(offs) or len(set(offs)) != len(offs):
                    acc.mismatch("C05|corpus|offsets-not-increasing|v%s" % vtag, file=label, path=path, linestarts=ls[:10])
                sl = dict(ls)
                for i in insts:
                    if i.starts_line != sl.get(i.offset):
                        acc.mismatch("C05|corpus|starts_line-vs-findlinestarts|v%s" % vtag, file=label, path=path, offset=i.offset,
                                     stream=i.starts_line, table=sl.get(i.offset))
                        break
                lt = C.get_field(c, "co_lnotab")
                if V < (3, 6) and lt is not C.Missing and isinstance(lt, (bytes, str)):
                    raw = lt if isinstance(lt, bytes) else lt.encode("latin-1")
                    out_tables.append({"label": label, "path": path, "vtag": vtag, "code_len": n, "firstlineno": c.co_firstlineno,
                                       "table": C.hexs(raw), "xdis": [list(x) for x in ls]})
                if len(ls) >= 2:
                    acc.distinct.add(sha(["c05", ls]))
        if len(acc.samples) < 3:
            acc.sample({"file": label, "version": vtag})
    res = acc.result()
    res["lnotabs"] = out_tables
    if "C01" in props:
        res["counters"]["load_code_monitor_calls"] = MON.load_code_calls
    return res


def code2(code, i):
    if i >= len(code):
        return 0
    b = code[i]
    return ord(b) if isinstance(b, str) else b


CMDS["corpusinv"] = cmd_corpusinv


if __name__ == "__main__":
    main()
