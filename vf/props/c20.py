"""C20 - xdis.std is a faithful drop-in for the host's dis module."""
import os

from .. import common as K
from ..gen import programs as G

RULE = ("on each host 3.8-3.13: functions, bound methods, generator/coroutine/async-generator objects, code objects and source "
        "strings obtained by executing seeded generated programs and compiling a stdlib sample; for each object x first_line in "
        "{None, 1, 100, 10^6}: xdis.std.get_instructions and Bytecode iteration vs the host's dis (opcode, opname, arg, offset, "
        "is_jump_target, starts_line, canonical argval for table-indexed and jump operands; inline CACHE pseudo-instructions are "
        "not compared), findlabels, findlinestarts, module-level tables; plus make_std_api(V) on the 3.12 host fed the pyc V wrote "
        "vs the default API natively on host V. one evaluation = one (object, first_line, API function) comparison; distinct = "
        "code object; non-trivial = all")


def run(tier, scratch, t0, replay=None):
    res = K.Result("C20")
    quick = tier == "quick"
    jobs = []
    gen_items = {}
    for h in sorted(K.available_hosts()):
        rng = K.rng_for("C20", h)
        srcs = K.list_stdlib(h, rng, limit=10 if quick else 800, exclude_tests=True)
        wd = scratch.sub("h%d%d" % h)
        gi = []
        for i in range(24 if quick else 500):
            text, tags = G.gen_program("%s-c20-%d" % (K.get_seed(), i), h)
            p = os.path.join(wd, "g%04d.py" % i)
            with open(p, "w", encoding="utf-8", errors="surrogatepass") as f:
                f.write(text)
            srcs.append(p)
            gi.append({"src": p, "pyc": p + "c", "filename": os.path.basename(p)})
        # programs that are always present, one per feature template (line steps of -128 and beyond, line gaps, closures,
        # exception tables, coroutines, the opcode zoo ...)
        for j, tname in enumerate(["t_backward_lines", "t_line_gaps", "t_opcode_zoo", "t_closure", "t_try_nest", "t_async", "t_class3",
                                   "t_long_loop", "t_compare", "t_comp"]):
            text, tags = G.gen_single(K.get_seed(), h, tname)
            if text is None:
                continue
            p = os.path.join(wd, "gm%02d_%s.py" % (j, tname))
            with open(p, "w", encoding="utf-8", errors="surrogatepass") as f:
                f.write(text)
            srcs.append(p)
            gi.append({"src": p, "pyc": p + "c", "filename": os.path.basename(p)})
        gen_items[h] = (wd, gi)
        rng.shuffle(srcs)
        for bi, chunk in enumerate(K.chunks(srcs, 12 if quick else 100)):
            jobs.append((h, bi, chunk, wd))

    def job(j):
        h, bi, chunk, wd = j
        return K.run_agent(h, "stdapi", {"sources": chunk, "exec_ok": True, "seed": K.get_seed(), "max_code": 1200 if quick else 12000}, wd, "std%d" % bi, timeout=3000)

    for j, (out, err, so, se) in zip(jobs, K.pmap(job, jobs)):
        if out is None:
            res.inconclusive.append("host %s: %s" % (K.vstr(j[0]), err))
            continue
        res.merge_agent(out)
        res.count("evaluations_host_" + K.vstr(j[0]), out["evaluations"])

    # make_std_api(V) on the main host vs the default API natively on host V
    def cross(h):
        wd, gi = gen_items[h]
        tf, err = K.run_truth(h, "compile", {"items": gi, "sections": []}, wd, "x-compile")
        if tf is None:
            return h, None, "compile: %s" % err
        items = [[g["src"], g["pyc"]] for g in gi if os.path.exists(g["pyc"])]
        if quick:
            items = [it for it in items if os.path.getsize(it[1]) < 6000][:14]
        else:
            # instruction iteration is quadratic in code size: bounded so that the thorough tier ends within the hour
            items = [it for it in items if os.path.getsize(it[1]) < 12000][:150]
        nat, e1, _, _ = K.run_agent(h, "stddump", {"mode": "native", "items": items}, wd, "x-native", timeout=3000)
        crs, e2, _, _ = K.run_agent(K.MAIN_HOST, "stddump", {"mode": "cross", "items": items, "version": list(h)}, wd,
                                    "x-cross", timeout=3000)
        if nat is None or crs is None:
            return h, None, "stddump: %s %s" % (e1, e2)
        return h, (nat, crs), None

    for h, pair, err in K.pmap(cross, [h for h in sorted(K.available_hosts()) if h != K.MAIN_HOST or True]):
        if pair is None:
            res.inconclusive.append("cross %s: %s" % (K.vstr(h), err))
            continue
        nat, crs = pair
        for fn, recs in sorted(nat["files"].items()):
            crec = crs["files"].get(fn, {})
            for path, r in sorted(recs.items()):
                res.evaluations += 1
                res.count("c20_make_std_api_comparisons")
                c = crec.get(path)
                if c is None:
                    res.mismatches.append({"key": "C20|make_std_api|v%s|code-missing" % K.vstr(h), "detail": {"file": fn, "path": path}})
                    continue
                if "error" in r or "error" in c:
                    if r.get("error") != c.get("error"):
                        res.mismatches.append({"key": "C20|make_std_api|v%s|raises" % K.vstr(h),
                                               "detail": {"file": fn, "path": path, "native": r.get("error"), "cross": c.get("error")}})
                    continue
                for part in ("labels", "linestarts"):
                    if r[part] != c[part]:
                        res.mismatches.append({"key": "C20|make_std_api|v%s|%s" % (K.vstr(h), part),
                                               "detail": {"file": fn, "path": path, "native": r[part][:8], "cross": c[part][:8]}})
                if r["inst"] != c["inst"]:
                    d = None
                    for a, b in zip(r["inst"], c["inst"]):
                        if a != b:
                            d = (a, b)
                            break
                    if d is None:
                        key = "C20|make_std_api|v%s|instruction-count" % K.vstr(h)
                        det = {"native": len(r["inst"]), "cross": len(c["inst"])}
                    else:
                        names = ["offset", "opcode", "opname", "arg", "argval", "is_jump_target", "starts_line"]
                        which = [n for n, x, y in zip(names, d[0], d[1]) if x != y]
                        key = "C20|make_std_api|v%s|field=%s|%s" % (K.vstr(h), "+".join(which), d[0][2])
                        det = {"native": d[0], "cross": d[1]}
                    det.update({"file": fn, "path": path})
                    res.mismatches.append({"key": key, "detail": det})
    return K.finish(res, tier, "exploration", RULE, t0,
                    assumptions=["the host's dis module is the reference on each host",
                                 "inline CACHE pseudo-instructions (hidden by dis by default) are not compared"], min_eval=2000)
