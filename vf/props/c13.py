"""C13 - a bytecode file read and written back is the same program for its Python."""
import json
import os
import subprocess

from .. import common as K
from .. import canon as C
from .. import diffpipe as D

VERSIONS = [(2, 7), (3, 6), (3, 7), (3, 8), (3, 9), (3, 10), (3, 11), (3, 12), (3, 13)]
RULE = ("for each target version V with an interpreter: seeded generated (executable) programs and a stdlib sample are compiled by V; "
        "xdis (3.12 host, plus host V for the native path) loads each file and writes it back with write_bytecode_file; every written "
        "file is validated: V's own marshal.loads of the new payload must be canonically equal to its view of the original (field by "
        "field, constant by constant), xdis must re-read it to the same content, and V executing original and rewritten file (fresh "
        "namespace, captured stdout, final plain globals) must behave identically. A raise from the writer counts as 'refused' (allowed). "
        "programs = files whose write was accepted")


def nan_norm(c):
    """NaNs have no equality: 'is a NaN' is what an *equal* constant can mean for the writer-side properties (C13/C14);
    the sign/payload of a NaN read from a file is C01's business."""
    if isinstance(c, list):
        if len(c) == 2 and c[0] == "f" and isinstance(c[1], str) and len(c[1]) == 16:
            bits = int(c[1], 16)
            if (bits & 0x7FF0000000000000) == 0x7FF0000000000000 and (bits & 0x000FFFFFFFFFFFFF):
                return ["f", "nan"]
            return c
        if len(c) == 3 and c[0] == "c":
            return ["c", nan_norm(["f", c[1]])[1], nan_norm(["f", c[2]])[1]]
        return [nan_norm(x) for x in c]
    if isinstance(c, dict):
        return dict((k, nan_norm(x)) for k, x in c.items())
    return c


def exec_batch(v, files, wd, tag, depth=0):
    """Run truth execpyc in small batches; bisect when the reference interpreter dies."""
    if not files:
        return {}
    tf, err = K.run_truth(v, "execpyc", {"files": files}, wd, tag, timeout=300)
    recs = {}
    if tf is not None:
        for r in K.read_jsonl(tf):
            if "pyc" in r and "begin" not in r:
                recs[r["pyc"]] = r
    if err and len(recs) < len(files):
        missing = [f for f in files if f not in recs]
        if len(missing) == 1 or depth > 6:
            for f in missing[:1]:
                recs[f] = {"pyc": f, "ok": False, "crash": err[:200]}
            rest = missing[1:]
            if rest:
                recs.update(exec_batch(v, rest, wd, tag + "r", depth + 1))
        else:
            h = len(missing) // 2
            recs.update(exec_batch(v, missing[:h], wd, tag + "a", depth + 1))
            recs.update(exec_batch(v, missing[h:], wd, tag + "b", depth + 1))
    return recs


def run(tier, scratch, t0, replay=None):
    res = K.Result("C13")
    quick = tier == "quick"
    batches = D.build_batches(scratch, [v for v in VERSIONS if v in K.available_interps()], tier, "C13",
                              n_stdlib=6 if quick else 150, n_gen=16 if quick else 300, batch=30, with_corpus=False,
                              gen_snippets=3 if quick else None,
                              must_templates=["t_opcode_zoo", "t_opcode_zoo2", "t_set_iter_order", "t_set_of_bytes", "t_shared_frozenset", "t_shared_big_tuple", "t_strings", "t_ints", "t_py2_long", "t_floats",
                                              "t_complex", "t_bytes", "t_containers", "t_closure"])

    def do_batch(b):
        v = b["v"]
        wd = b["workdir"]
        tf, err = K.run_truth(v, "compile", {"items": b["items"], "sections": [], "mode": "compile"}, wd, b["tag"])
        if tf is None:
            return b, None, "compile: %s" % err
        items = [{"pyc": it["pyc"], "new": it["pyc"][:-4] + ".new.pyc", "gen": os.path.basename(it["pyc"])[0] in "gm"}
                 for it in b["items"] if os.path.exists(it["pyc"])]
        outs = {}
        hosts = [K.MAIN_HOST] + ([v] if v in K.available_hosts() and v != K.MAIN_HOST else [])
        for h in hosts:
            its = [dict(it, new=it["new"].replace(".new.pyc", ".new-h%d%d.pyc" % h)) for it in items]
            out, aerr, so, se = K.run_agent(h, "rewrite", {"items": its}, wd, b["tag"] + "-rw%d%d" % h, timeout=1800)
            if out is None:
                return b, None, "rewrite on host %s: %s" % (K.vstr(h), aerr)
            outs[h] = (its, out["items"])
        # reference view of originals and rewritten files
        files = [it["pyc"] for it in items]
        for h, (its, recs) in outs.items():
            files += [r["new"] for r in recs if r.get("written")]
        cf, err = K.run_truth(v, "loadpyc_canon", {"files": files}, wd, b["tag"] + "-canon", timeout=900)
        canon = {}
        if cf is not None:
            for r in K.read_jsonl(cf):
                if "pyc" in r and "begin" not in r:
                    canon[r["pyc"]] = r
        crashed = None
        if err:
            crashed = err
        # execution comparison for generated programs
        exec_files = []
        for h, (its, recs) in outs.items():
            for it, r in zip(its, recs):
                if it["gen"] and r.get("written"):
                    exec_files += [it["pyc"], r["new"]]
        # CPython's own read-then-write of every original (marshal.loads -> marshal.dumps in the target interpreter): the
        # yardstick for differences that the marshal format itself cannot avoid (member order of frozenset constants)
        origs0 = sorted(set(it["pyc"] for h, (its, recs) in outs.items() for it, r in zip(its, recs) if it["gen"] and r.get("written")))
        tfr, errr = K.run_truth(v, "redump", {"files": origs0}, wd, b["tag"] + "-redump", timeout=600)
        own = [p + ".own.pyc" for p in origs0 if os.path.exists(p + ".own.pyc")]
        ex = exec_batch(v, sorted(set(exec_files) | set(own)), wd, b["tag"] + "-exec")
        # determinism control: each original is executed a second time (other process, other order); a program whose own two
        # runs differ (addresses, time, hash order ...) cannot witness a difference made by the rewrite
        origs = sorted(set(it["pyc"] for h, (its, recs) in outs.items() for it, r in zip(its, recs) if it["gen"] and r.get("written")))
        ex2 = exec_batch(v, list(reversed(origs)), wd, b["tag"] + "-exec2")
        for p in origs:
            a, c = ex.get(p), ex2.get(p)
            if a and c and a.get("ok") and c.get("ok") and \
                    (a["stdout"], a["exc"], nan_norm(a["globals"])) != (c["stdout"], c["exc"], nan_norm(c["globals"])):
                a["nondeterministic"] = True
        return b, (outs, canon, ex, crashed, files), None

    accepted = refused = 0
    disagreements = 0
    for b, data, err in K.pmap(do_batch, batches):
        v = b["v"]
        if data is None:
            res.inconclusive.append("%s %s: %s" % (K.vstr(v), b["tag"], err))
            continue
        outs, canon, ex, crashed, files = data
        for h, (its, recs) in outs.items():
            for it, r in zip(its, recs):
                res.evaluations += 1
                tag = "v%s|host%s|%s" % (K.vstr(v), K.vstr(h), "native" if r.get("native") else "portable")
                det = {"file": os.path.basename(it["pyc"]), "host": K.vstr(h)}
                if "load_error" in r:
                    res.count("c13_load_failed")
                    continue
                if not r.get("written"):
                    refused += 1
                    res.count("refused:%s|%s" % (tag, r["refused"]))
                    continue
                accepted += 1
                res.count("accepted:" + tag)
                o, n = canon.get(it["pyc"]), canon.get(r["new"])
                if n is None:
                    # the reference interpreter died on the written file
                    res.mismatches.append({"key": "C13|%s|reference-interpreter-crashed-on-written-file" % tag,
                                           "detail": dict(det, crash=(crashed or "")[-200:])})
                    disagreements += 1
                elif not n.get("ok"):
                    res.mismatches.append({"key": "C13|%s|target-rejects-written-file:%s" % (tag, n.get("error", "?").split(":")[0]),
                                           "detail": dict(det, error=n.get("error"))})
                    disagreements += 1
                elif o is not None and o.get("ok") and nan_norm(o["canon"]) != nan_norm(n["canon"]):
                    d = C.first_diff(nan_norm(o["canon"]), nan_norm(n["canon"]), "")
                    where, a, bb = d
                    ka, kb = C.kind_of(a), C.kind_of(bb)
                    field = [p for p in where.split("/") if p.startswith("co_")]
                    what = "kind:%s->%s" % (ka, kb) if ka != kb else "value:%s" % ka
                    res.mismatches.append({"key": "C13|%s|target-loads-different-code|%s|%s" % (tag, field[-1] if field else "?", what),
                                           "detail": dict(det, where=where, original=json.dumps(a)[:160], rewritten=json.dumps(bb)[:160])})
                    disagreements += 1
                if r.get("reread_error"):
                    res.mismatches.append({"key": "C13|%s|xdis-cannot-reread:%s" % (tag, r["reread_error"].split(":")[0]),
                                           "detail": dict(det, error=r["reread_error"])})
                    disagreements += 1
                elif r.get("reread_tree") != r.get("tree"):
                    fld = (r.get("reread_diff") or ["? ?"])[0].split(" ")
                    res.mismatches.append({"key": "C13|%s|xdis-rereads-different-content|%s" % (tag, fld[1] if len(fld) > 1 else "?"),
                                           "detail": dict(det, diff=r.get("reread_diff"))})
                    disagreements += 1
                if it["gen"]:
                    eo, en = ex.get(it["pyc"]), ex.get(r["new"])
                    if eo and eo.get("nondeterministic"):
                        res.count("c13_program_not_deterministic_exec_comparison_skipped")
                    elif eo and en and eo.get("ok") and n is not None and n.get("ok"):
                        res.count("c13_exec_comparisons")
                        if not en.get("ok"):
                            res.mismatches.append({"key": "C13|%s|exec|rewritten-file-fails:%s" % (tag, (en.get("crash") or en.get("error") or "?")[:40]),
                                                   "detail": det})
                            disagreements += 1
                        elif (eo["stdout"], eo["exc"], nan_norm(eo["globals"])) != (en["stdout"], en["exc"], nan_norm(en["globals"])):
                            which = "stdout" if eo["stdout"] != en["stdout"] else ("exception" if eo["exc"] != en["exc"] else "globals")
                            if which == "globals":
                                dk = sorted(k for k in set(eo["globals"]) | set(en["globals"])
                                            if nan_norm(eo["globals"].get(k)) != nan_norm(en["globals"].get(k)))
                                det = dict(det, differing_globals=dk[:5], first=[eo["globals"].get(dk[0]), en["globals"].get(dk[0])] if dk else None)
                            eown = ex.get(it["pyc"] + ".own.pyc")
                            if eown and eown.get("ok") and (eown["stdout"], eown["exc"], nan_norm(eown["globals"])) == \
                                    (en["stdout"], en["exc"], nan_norm(en["globals"])):
                                # the file xdis wrote behaves exactly like the one CPython's own marshal writes after reading
                                # the original: the difference is made by the format (it stores set members in iteration order)
                                which += "|as-cpython-own-marshal-round-trip"
                            res.mismatches.append({"key": "C13|%s|exec|behaves-differently:%s" % (tag, which),
                                                   "detail": dict(det, original=str(eo.get(which if which != "exception" else "exc"))[-200:],
                                                                  rewritten=str(en.get(which if which != "exception" else "exc"))[-200:])})
                            disagreements += 1
                res.distinct.add(K.sha([K.vstr(v), r.get("tree")]))
                if len(res.samples) < 4:
                    res.sample({"version": K.vstr(v), "host": K.vstr(h), "file": det["file"], "path": "native" if r.get("native") else "portable"})
    # ---- versions without an installed interpreter: the historical corpus.  No target can judge the written file, so only the
    # weaker clause is checked there: what xdis writes, xdis reads back as the same tree (or the write is refused).
    citems = []
    cdir = scratch.sub("corpus-rw")
    for p in K.corpus_files():
        vtag = os.path.basename(os.path.dirname(p)).replace("bytecode_", "")
        if "dropbox" in vtag or (quick and os.path.getsize(p) > 6000):
            continue
        try:
            cv = tuple(int(x) for x in vtag.split("."))
        except ValueError:
            cv = None
        if cv in K.available_interps():
            continue
        citems.append({"pyc": p, "new": os.path.join(cdir, "%s-%s.new.pyc" % (vtag, os.path.basename(p))), "vtag": vtag})
    if quick:
        citems = citems[::2]

    def cjob(ci):
        i, ch = ci
        return K.run_agent(K.MAIN_HOST, "rewrite", {"items": ch}, cdir, "crw%d" % i, timeout=1800)

    cchunks = list(K.chunks(citems, 25))
    for (i, ch), (out, aerr, so, se) in zip(enumerate(cchunks), K.pmap(cjob, list(enumerate(cchunks)))):
        if out is None:
            res.inconclusive.append("corpus rewrite batch %d: %s" % (i, aerr))
            continue
        for it, r in zip(ch, out["items"]):
            res.evaluations += 1
            res.count("c13_corpus_rewrites")
            tag = "corpus|v%s" % it["vtag"]
            det = {"file": "corpus/%s/%s" % (it["vtag"], os.path.basename(it["pyc"]))}
            if r.get("load_error"):
                res.count("c13_corpus_file_not_loadable")
                continue
            if not r.get("written"):
                refused += 1
                res.count("c13_corpus_refused:" + str(r.get("refused", "?")).split("@")[0])
                if not str(r.get("refused", "")).startswith(("TypeError", "ValueError", "NotImplementedError")):
                    res.mismatches.append({"key": "C13|%s|write-raises:%s" % (tag, r.get("refused")), "detail": det})
                continue
            accepted += 1
            if r.get("reread_error"):
                res.mismatches.append({"key": "C13|%s|xdis-cannot-reread:%s" % (tag, r["reread_error"].split(":")[0]),
                                       "detail": dict(det, error=r["reread_error"])})
            elif r.get("reread_tree") != r.get("tree"):
                fld = (r.get("reread_diff") or ["? ?"])[0].split(" ")
                res.mismatches.append({"key": "C13|%s|xdis-rereads-different-content|%s" % (tag, fld[1] if len(fld) > 1 else "?"),
                                       "detail": dict(det, diff=r.get("reread_diff"))})
    res.count("c13_accepted", accepted)
    res.count("c13_refused", refused)
    if accepted == 0:
        res.inconclusive.append("no write was accepted")
    return K.finish(res, tier, "translation_validation", RULE, t0,
                    assumptions=["the target interpreter's marshal.loads and execution are the reference for the written file"],
                    min_eval=50, level_extra={"programs": max(accepted, 0), "disagreements_checked": disagreements})
