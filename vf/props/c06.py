"""C06 - pyc header is decoded per the file format of the bytecode's version."""
import os
import re
import struct

from .. import common as K
from . import c08

RULE = ("(a) real headers: every reference interpreter writes the same source with py_compile (3.7+: TIMESTAMP, CHECKED_HASH, "
        "UNCHECKED_HASH) with controlled mtimes {1, 2^31, 2^32-1} and source sizes; for 3.7+ CPython's own _classify_pyc run "
        "inside V is the oracle; (b) synthetic headers: the final-release magic of every CPython release in the registry plus "
        "every magic seen in the historical corpus (incl. PyPy) x flag words {0,1,2,3} (and 4, 0x100, 0x01000000, 0xFFFFFFFF, random, "
        "which CPython rejects and which are only counted) x random 32-bit timestamp/size and 64-bit hash, in front of a valid payload "
        "of that version (corpus or fresh; header-only where no payload exists). one evaluation = one header parsed by load_module "
        "and compared field by field (presence and value) with the version's format; distinct = (magic, form, field values)")


def layout(v):
    if v >= (3, 7):
        return "pep552"
    if v >= (3, 3):
        return "ts+size"
    return "ts"


def run(tier, scratch, t0, replay=None):
    res = K.Result("C06")
    quick = tier == "quick"
    rng = K.rng_for("C06")
    items = []
    wd = scratch.sub("hdr")

    # ---- payload sources: corpus (magic -> (payload bytes, header len)) and fresh files
    payloads = {}
    magic_word = {}
    for p in K.corpus_files():
        with open(p, "rb") as f:
            data = f.read()
        magic = struct.unpack("<H", data[:2])[0]
        tag = os.path.basename(os.path.dirname(p)).replace("bytecode_", "")
        if magic in payloads or "dropbox" in tag:
            continue
        m = re.match(r"^(?:pypy)?(\d)\.?(\d+)", tag)
        if not m:
            continue
        v = (int(m.group(1)), int(m.group(2)))
        hl = {"pep552": 16, "ts+size": 12, "ts": 8}[layout(v)]
        payloads[magic] = (data[hl:], v, "pypy" in tag, tag)
        magic_word[magic] = data[:4]  # the real four bytes: Python 1.0-1.2 files do not end their magic word with CR LF

    # ---- (a) real files written by the interpreters themselves
    src = os.path.join(wd, "hdrsrc.py")
    real = []
    for v in sorted(K.available_interps()):
        modes = [None] if v < (3, 7) else ["TIMESTAMP", "CHECKED_HASH", "UNCHECKED_HASH"]
        its = []
        for k, mt in enumerate([1, 2 ** 31, 2 ** 32 - 1] if v >= (3, 3) else [1, 2 ** 31 - 1, 2 ** 31 - 2]):
            sp = os.path.join(wd, "s%d%d_%d.py" % (v[0], v[1], k))
            with open(sp, "w") as f:
                f.write("x = %d\n" % k + "#" * rng.randrange(0, 300) + "\n")
            for md in modes:
                its.append({"src": sp, "pyc": os.path.join(wd, "r%d%d_%d_%s.pyc" % (v[0], v[1], k, md)), "mode": md, "mtime": mt})
        tf, err = K.run_truth(v, "pycompile", {"items": its}, wd, "pc%d%d" % v)
        if tf is None:
            res.inconclusive.append("py_compile in %s: %s" % (K.vstr(v), err))
            continue
        ok = [it for it, r in zip(its, K.read_jsonl(tf)) if r.get("ok")]
        hf, err = K.run_truth(v, "header", {"files": [it["pyc"] for it in ok]}, wd, "hd%d%d" % v)
        if hf is None:
            res.inconclusive.append("header oracle in %s: %s" % (K.vstr(v), err))
            continue
        for it, h in zip(ok, K.read_jsonl(hf)):
            if not h.get("ok"):
                res.count("oracle_rejected_real_header")
                continue
            with open(it["pyc"], "rb") as f:
                data = f.read()
            magic = struct.unpack("<H", data[:2])[0]
            exp = {"version": list(v), "magic": magic, "vtag": K.vstr(v), "form": "real:" + str(it["mode"]),
                   "timestamp": h.get("mtime"), "source_size": h.get("size"), "sip_hash": h.get("hash"), "flags": h.get("flags")}
            if h.get("hash_based"):
                exp["timestamp"], exp["source_size"] = None, None
            pf = it["pyc"] + ".payload"
            with open(pf, "wb") as f:
                f.write(data[h["hl"]:])
            items.append({"pyc": it["pyc"], "label": "real/%s/%s/mtime=%d" % (K.vstr(v), it["mode"], it["mtime"]), "expect": exp,
                          "payload_file": pf, "payload_magic_int": magic})
            if magic not in payloads:
                payloads[magic] = (data[h["hl"]:], v, False, K.vstr(v))
            res.count("c06_real_headers")

    # ---- (b) synthetic headers
    reg = c08.parse_registry()
    final = {}
    newest = max(K.LIBDIRS)
    txt = open(K.LIBDIRS[newest] + "/importlib/_bootstrap_external.py", encoding="utf-8").read()
    for m in re.finditer(r"^#\s+Python (\d)\.(\d+)[0-9a-z.]*:?\s+(\d{4,5})\b", txt, re.M):
        final[(int(m.group(1)), int(m.group(2)))] = int(m.group(3))
    final[(3, 5)] = 3351
    magics = dict((mg, (v, False, K.vstr(v))) for v, mg in final.items())
    magics[3350] = ((3, 5), False, "3.5")
    for mg, (pl, v, pypy, tag) in payloads.items():
        magics.setdefault(mg, (v, pypy, tag))
    flagsets = [0, 1, 2, 3]
    bad_flags = [4, 0x100, 0x01000000, 0xFFFFFFFF, rng.getrandbits(32) | 4]
    n = 0
    for mg, (v, pypy, tag) in sorted(magics.items()):
        lay = layout(v)
        pl = payloads.get(mg)
        reps = 6 if quick else 24
        for rep in range(reps):
            for fl in (flagsets if lay == "pep552" else [None]):
                ts, sz, hs = rng.getrandbits(32), rng.getrandbits(32), rng.getrandbits(64)
                if rep == 0:
                    ts, sz, hs = 0xFFFFFFFF, 0xFFFFFFFF, 0xFFFFFFFFFFFFFFFF
                head = magic_word.get(mg, struct.pack("<H", mg) + b"\r\n")
                exp = {"version": list(v), "magic": mg, "vtag": tag, "form": "synthetic:%s:flags=%s" % (lay, fl),
                       "timestamp": None, "source_size": None, "sip_hash": None, "flags": fl}
                if lay == "ts":
                    head += struct.pack("<I", ts)
                    exp["timestamp"] = ts
                elif lay == "ts+size":
                    head += struct.pack("<II", ts, sz)
                    exp["timestamp"], exp["source_size"] = ts, sz
                else:
                    head += struct.pack("<I", fl)
                    if fl & 1:
                        head += struct.pack("<Q", hs)
                        exp["sip_hash"] = hs
                    else:
                        head += struct.pack("<II", ts, sz)
                        exp["timestamp"], exp["source_size"] = ts, sz
                n += 1
                p = os.path.join(wd, "syn%05d.pyc" % n)
                it = {"pyc": p, "label": "synthetic/%s/magic=%d/flags=%s" % (tag, mg, fl), "expect": exp}
                if pl is not None:
                    body = pl[0]
                    pf = os.path.join(wd, "payload-%d.bin" % mg)
                    if not os.path.exists(pf):
                        with open(pf, "wb") as f:
                            f.write(body)
                    it["payload_file"], it["payload_magic_int"] = pf, mg
                else:
                    body = b"N" + b"\0" * 60
                    it["get_code"] = False
                    res.count("c06_header_only_cases")
                with open(p, "wb") as f:
                    f.write(head + body)
                items.append(it)
                res.count("c06_synthetic_headers")
        if lay == "pep552":
            res.count("c06_flag_words_rejected_by_cpython_not_judged", len(bad_flags))
    chunks = list(K.chunks(items, 120))

    def job(ci):
        i, ch = ci
        return K.run_agent(K.MAIN_HOST, "headers", {"items": ch}, scratch.root, "hdr%d" % i, timeout=1200)

    for out, err, so, se in K.pmap(job, list(enumerate(chunks))):
        if out is None:
            res.inconclusive.append("headers: %s" % err)
            continue
        res.merge_agent(out)
    res.extra["magics_covered"] = len(magics)
    if not res.counters.get("c06_real_headers"):
        res.inconclusive.append("no real header was produced")
    return K.finish(res, tier, "exploration", RULE, t0,
                    assumptions=["3.7+: importlib._bootstrap_external._classify_pyc inside V is the header oracle; older layouts per the "
                                 "three-row format table of the statement", "flag words CPython itself rejects are not judged"],
                    min_eval=200)
