"""C12 - listings are total, faithful to the instruction stream, and clean."""
import os
import subprocess

from .. import common as K
from .. import diffpipe as D

FORMATS = ["classic", "bytes", "extended", "extended-bytes", "xasm", "header"]
RULE = ("every file of the historical corpus (all versions 1.0-3.12 incl. PyPy) plus files freshly compiled by each reference "
        "interpreter (stdlib sample + seeded generated programs) x 6 formats through xdis.disasm.disassemble_file with a separate "
        "output buffer, on the 3.12 host and (every third batch, plus all always-present feature programs) on each other host 3.8-3.13; monitors: exception at the API boundary, bytes on fd 1 / fd 2 / sys.stdout / sys.stderr during the call, and "
        "for classic/bytes a strict line grammar whose rows must be exactly the non-CACHE instruction stream of Bytecode(co, opc) in "
        "queue order (offset, opname, operand text, '>>' <=> is_jump_target, line column <=> starts_line for bytecode >= 2.3); plus the "
        "pydisasm process (exit status, stderr empty, stdout = in-process listing). one evaluation = one (file, format); distinct = "
        "file x format; non-trivial = file has nested code or > 30 code bytes")


def run(tier, scratch, t0, replay=None):
    res = K.Result("C12")
    quick = tier == "quick"
    items = []
    for p in K.corpus_files():
        vtag = os.path.basename(os.path.dirname(p)).replace("bytecode_", "")
        items.append({"pyc": p, "label": "corpus/" + vtag + "/" + os.path.basename(p), "vtag": vtag})
    # fresh files from every reference interpreter
    batches = D.build_batches(scratch, sorted(K.available_interps()), tier, "C12", n_stdlib=6 if quick else 300,
                              n_gen=10 if quick else 150, batch=40, with_corpus=False, gen_snippets=3 if quick else None,
                              must_templates=["t_opcode_zoo", "t_opcode_zoo2", "t_ext_edges", "t_ext_jumps", "t_py2_raise", "t_strings", "t_try_nest", "t_async", "t_class3", "t_comp", "t_misc",
                                              "t_shared_frozenset", "t_ints"])

    def compile_batch(b):
        tf, err = K.run_truth(b["v"], "compile", {"items": b["items"], "sections": [], "mode": "compile"}, b["workdir"], b["tag"])
        return b, tf, err

    for b, tf, err in K.pmap(compile_batch, batches):
        if tf is None:
            res.inconclusive.append("compile %s: %s" % (K.vstr(b["v"]), err))
            continue
        for it in b["items"]:
            if os.path.exists(it["pyc"]) and (not quick or os.path.getsize(it["pyc"]) < 30000):
                items.append({"pyc": it["pyc"], "label": "fresh/%s/%s" % (K.vstr(b["v"]), os.path.basename(it["src"])),
                              "vtag": K.vstr(b["v"])})
    rng = K.rng_for("C12")
    rng.shuffle(items)
    chunks = list(K.chunks(items, 12 if quick else 40))
    # host dimension: every third chunk rotates over the other hosts able to import the package, and the feature programs that are
    # always present (opcode zoo, raise forms, async, ...) are listed on *every* host - a listing routine may use something the
    # oldest host lacks
    hosts = [K.MAIN_HOST] * len(chunks)
    others = [h for h in sorted(K.available_hosts()) if h != K.MAIN_HOST]
    for i in range(len(chunks)):
        if i % 3 == 2 and others:
            hosts[i] = others[(i // 3) % len(others)]
    must_items = [it for it in items if os.path.basename(it["pyc"]).startswith("m0")]
    for h in others:
        for ch in K.chunks(must_items, 30):
            chunks.append(ch)
            hosts.append(h)

    def job(ci):
        i, chunk = ci
        return K.run_agent(hosts[i], "listings", {"files": chunk, "formats": FORMATS}, scratch.root, "lst%d" % i, timeout=3000)

    for (i, chunk), (out, err, so, se) in zip(enumerate(chunks), K.pmap(job, list(enumerate(chunks)))):
        if out is None:
            res.inconclusive.append("listings batch %d: %s" % (i, err))
            continue
        res.merge_agent(out)
        res.count("files", len(chunk))
        res.count("files_listed_on_host_" + K.vstr(hosts[i]), len(chunk))

    # the pydisasm process on a sample
    sample = [it for it in items if it["label"].startswith("corpus/")][:: (9 if quick else 2)] + \
             [it for it in items if it["label"].startswith("fresh/")][:: (6 if quick else 2)]
    env = K.base_env()
    env["PYTHONPATH"] = K.REPO

    def cli(it_fmt):
        it, fmt = it_fmt
        try:
            # the console-script form (module not run as __main__, so third-party DeprecationWarnings of
            # click stay hidden as they do for the installed `pydisasm` command)
            p = subprocess.run([K.HOSTS[K.MAIN_HOST], "-B", "-c",
                                "import sys; from xdis.bin.pydisasm import main; sys.argv = ['pydisasm'] + sys.argv[1:]; main()",
                                "-F", fmt, it["pyc"]], env=env,
                               stdout=subprocess.PIPE, stderr=subprocess.PIPE, timeout=600)
        except subprocess.TimeoutExpired:
            return it, fmt, None
        return it, fmt, p

    cli_jobs = [(it, fmt) for k, it in enumerate(sample) for fmt in [FORMATS[k % len(FORMATS)]]]
    for it, fmt, p in K.pmap(cli, cli_jobs):
        res.evaluations += 1
        res.count("c12_pydisasm_processes")
        if p is None:
            res.inconclusive.append("pydisasm watchdog on %s" % it["label"])
            continue
        vtag = it["vtag"]
        if p.returncode != 0:
            last = p.stderr.decode("utf-8", "replace").strip().split("\n")[-1][:200]
            exc = last.split(":")[0]
            res.mismatches.append({"key": "C12|pydisasm|%s|exit-status|%s|v%s" % (fmt, exc, vtag),
                                   "detail": {"file": it["label"], "rc": p.returncode, "stderr_tail": last}})
        elif p.stderr:
            res.mismatches.append({"key": "C12|pydisasm|%s|stderr-not-empty|v%s" % (fmt, vtag),
                                   "detail": {"file": it["label"], "stderr": p.stderr.decode("utf-8", "replace")[:300]}})
        elif not p.stdout.strip():
            res.mismatches.append({"key": "C12|pydisasm|%s|empty-stdout|v%s" % (fmt, vtag), "detail": {"file": it["label"]}})
    return K.finish(res, tier, "exploration", RULE, t0,
                    assumptions=["self-consistency oracle defined by the statement; corpus files are taken as valid inputs",
                                 "line-number column is not judged for bytecode < 2.3 (SET_LINENO-driven display)"], min_eval=500)
