"""C01 - unmarshalled code objects equal what the producing CPython loads."""
from .. import common as K
from .. import diffpipe as D

VERSIONS = [(2, 7), (3, 6), (3, 7), (3, 8), (3, 9), (3, 10), (3, 11), (3, 12), (3, 13)]

RULE = ("each file is compiled/marshalled by reference interpreter V itself (its own stdlib sample, seeded generated "
        "programs, corpus files of V's version); one evaluation = one code object compared field by field with V's "
        "marshal.loads view (plus one consumed-length check per load_code call); distinct = SHA-1 of the per-object "
        "field record; non-trivial = co_consts holds something other than None/bool/small int/short ASCII text")


def run(tier, scratch, t0, replay=None):
    res = K.Result("C01")
    quick = tier == "quick"
    batches = D.build_batches(scratch, VERSIONS, tier, "C01", n_stdlib=60 if quick else 2500,
                              n_gen=30 if quick else 400, batch=15 if quick else 40,
                              focus=["int", "float", "complex", "text", "bytes", "frozenset", "big_tuple",
                                     "shared_consts", "py2long", "many_consts"],
                              must_templates=["t_opcode_zoo", "t_opcode_zoo2", "t_big_literal", "t_set_of_bytes", "t_shared_big_tuple", "t_shared_frozenset", "t_strings", "t_ints", "t_floats", "t_complex", "t_py2_long", "t_closure", "t_class3", "t_pep695"])
    D.run_diff(res, batches, ["canon", "consumed"], ["C01"])
    D.corpus_invariants(res, scratch, ["C01"], tier)
    if not res.counters.get("c01_consumed_checks"):
        res.inconclusive.append("payload-consumed monitor on xdis.unmarshal.load_code never evaluated")
    return K.finish(res, tier, "exploration", RULE, t0,
                    assumptions=["reference interpreters 2.7/3.6-3.13 are the oracle for their own bytecode",
                                 "versions without an installed interpreter are not compared for equality here",
                                 "truth.py/canon.py canonical forms are twins (kind-tagged)"],
                    min_eval=100)
