"""C16 - native and portable code objects convert back and forth without loss."""
import os

from .. import common as K
from ..gen import programs as G

RULE = ("on each host 3.8-3.13: every code object from compiling a sample of the host's own stdlib and seeded generated "
        "programs at the host's syntax level; one evaluation = one native code object: codeType2Portable type check, "
        "to_native() compared attribute by attribute (every co_* data attribute, co_lines(), co_positions(), ==), "
        "replace() under a snapshot/postcondition contract (changed copy, original canonical form unchanged); oracle = the "
        "native object itself; distinct = SHA-1 of (co_code, line table); non-trivial = non-empty line table")


def run(tier, scratch, t0, replay=None):
    res = K.Result("C16")
    quick = tier == "quick"
    jobs = []
    for h in sorted(K.available_hosts()):
        rng = K.rng_for("C16", h)
        srcs = K.list_stdlib(h, rng, limit=80 if quick else 2500)
        wd = scratch.sub("h%d%d" % h)
        for i in range(40 if quick else 500):
            text, tags = G.gen_program("%s-c16-%d" % (K.get_seed(), i), h)
            p = os.path.join(wd, "g%04d.py" % i)
            with open(p, "w", encoding="utf-8", errors="surrogatepass") as f:
                f.write(text)
            srcs.append(p)
        rng.shuffle(srcs)
        for bi, chunk in enumerate(K.chunks(srcs, 40 if quick else 150)):
            jobs.append((h, bi, chunk, wd))

    def job(j):
        h, bi, chunk, wd = j
        return K.run_agent(h, "roundtrip", {"sources": chunk}, wd, "rt%d" % bi, timeout=3000)

    for j, (out, err, so, se) in zip(jobs, K.pmap(job, jobs)):
        if out is None:
            res.inconclusive.append("host %s: %s" % (K.vstr(j[0]), err))
            continue
        res.merge_agent(out)
        res.count("code_objects_host_" + K.vstr(j[0]), out["evaluations"])
    if not res.counters.get("c16_replace_contract_evaluations"):
        res.inconclusive.append("replace() contract never evaluated")
    return K.finish(res, tier, "exploration", RULE, t0,
                    assumptions=["the native code object is its own reference"], min_eval=1000)
