"""C14 - xdis.marsh and the built-in marshal are interchangeable on plain values."""
from .. import common as K

RULE = ("seeded plain values (None/bool/Ellipsis/StopIteration, ints across 15-bit-digit and 32/64-bit boundaries, float "
        "specials, complex, bytes, text of every code-point class incl. surrogates, tuples/lists/sets/frozensets/dicts nested "
        "to depth 6, sizes 0-300, None keys/values) on every host 3.8-3.13; one evaluation = one value through one direction "
        "(xdis.marsh.dumps->marshal.loads, marshal.dumps(v,0|1)->xdis.marsh.loads, dump/load on file objects); oracle = host "
        "marshal + canonical equality with kinds; a failing value is shrunk structurally to its smallest failing sub-value "
        "whose shape class keys the mismatch; distinct = SHA-1 of canonical value; non-trivial = not None/bool/int<256")


def run(tier, scratch, t0, replay=None):
    res = K.Result("C14")
    quick = tier == "quick"
    hosts = sorted(K.available_hosts())
    per = 1500 if quick else 40000
    parts = 2 if quick else 4
    jobs = [(h, p) for h in hosts for p in range(parts)]

    def job(j):
        h, p = j
        return K.run_agent(h, "marsh", {"seed": K.get_seed(), "part": "%s-%d" % (K.vstr(h), p), "n": per}, scratch.root,
                           "marsh-h%d%d-%d" % (h[0], h[1], p), timeout=3000)

    for j, (out, err, so, se) in zip(jobs, K.pmap(job, jobs)):
        if out is None:
            res.inconclusive.append("host %s: %s" % (K.vstr(j[0]), err))
            continue
        res.merge_agent(out)
        res.count("agent_runs")
        res.count("values_host_" + K.vstr(j[0]), per)
    return K.finish(res, tier, "exploration", RULE, t0,
                    assumptions=["the host's built-in marshal is the reference on each host 3.8-3.13"], min_eval=5000)
