"""C08 - magic-number knowledge coherent and in agreement with CPython's registry."""
import glob
import json
import re

from .. import common as K

RULE = ("finite domain enumerated completely at run time: all 65536 magic ints through int2magic/magic2int; every row of "
        "CPython's registry comment (union over installed importlib/_bootstrap_external.py) through magic_int2tuple; every "
        "magic xdis knows through magic_int2tuple and, if load_module(get_code=False) accepts a file with it, get_opcode; "
        "every release name through py_str2tuple and, for X.Y.Z names, magics[name] vs the registry's final magic of X.Y; "
        "sysinfo2magic vs the magic each installed interpreter really writes. distinct = rows (all distinct); every row is "
        "non-trivial")


def parse_registry():
    rows = {}
    order = []
    for v, lib in sorted(K.LIBDIRS.items()):
        p = lib + "/importlib/_bootstrap_external.py"
        try:
            txt = open(p, encoding="utf-8").read()
        except OSError:
            continue
        for m in re.finditer(r"^#\s+Python (\d\.\d+[0-9a-z.]*):?\s+(\d{4,5})\b", txt, re.M):
            rel, magic = m.group(1), int(m.group(2))
            if (rel, magic) not in rows:
                rows[(rel, magic)] = True
                order.append((rel, magic))
    return order


def run(tier, scratch, t0, replay=None):
    res = K.Result("C08")
    reg = parse_registry()
    if len(reg) < 150:
        res.inconclusive.append("registry comment parsed to only %d rows" % len(reg))
    # final magic per X.Y = last row listed for that minor in the newest registry
    final = {}
    newest = max(K.LIBDIRS)
    txt = open(K.LIBDIRS[newest] + "/importlib/_bootstrap_external.py", encoding="utf-8").read()
    for m in re.finditer(r"^#\s+Python (\d)\.(\d+)[0-9a-z.]*:?\s+(\d{4,5})\b", txt, re.M):
        final[m.group(1) + "." + m.group(2)] = int(m.group(3))
    # the registry's own 3.5 split: 3.5.0/3.5.1 wrote 3350 (3.5b3 row), 3.5.2+ 3351
    overrides = {"3.5.0": 3350, "3.5.1": 3350}
    # 2.7 final is 62211 (last 2.7a0 row); already what "last row" gives.
    interps = []
    for v in sorted(K.available_interps()):
        tf, err = K.run_truth(v, "magic", {}, scratch.root, "magic%d%d" % v)
        if tf is None:
            res.inconclusive.append("magic of %s: %s" % (K.vstr(v), err))
            continue
        interps.append(K.read_jsonl(tf)[0])
    # the tables are built at import by code that may behave differently on an older host: oldest, main and newest host
    # on every run, all hosts in the thorough tier
    av = sorted(K.available_hosts())
    hosts = sorted(set([K.MAIN_HOST, av[0], av[-1]])) if tier == "quick" else av
    args = {"registry": reg, "final_magic": final, "release_overrides": overrides, "interpreters": interps,
            "workdir": scratch.root}
    first = None
    for h in hosts:
        out, err, so, se = K.run_agent(h, "magics", args, scratch.root, "magics-h%d%d" % h)
        if out is None:
            res.inconclusive.append("host %s: %s" % (K.vstr(h), err))
            continue
        res.merge_agent(out)
        res.count("hosts")
        if out["counters"].get("stray_stdout_bytes") or out["counters"].get("stray_stderr_bytes"):
            res.count("stray_output_hosts")
    res.extra["exhaustive"] = True
    res.extra["registry_rows"] = len(reg)
    res.sample({"registry_first_rows": reg[:3], "registry_last_rows": reg[-3:]})
    return K.finish(res, tier, "exploration", RULE, t0,
                    assumptions=["CPython's registry comment in importlib/_bootstrap_external.py (3.13 copy is the superset) is the "
                                 "reference for magic -> release", "final magic of X.Y = last registry row for X.Y (3.5.0/3.5.1 = 3350)"],
                    min_eval=65536)
