"""C18 - each call's result is independent of what the process did before."""
import os

from .. import common as K

FORMATS = ["classic", "bytes", "extended", "extended-bytes", "xasm", "header"]
VERS = [(1, 5), (2, 2), (2, 5), (2, 7), (3, 0), (3, 3), (3, 5), (3, 6), (3, 7), (3, 8), (3, 9), (3, 10), (3, 11), (3, 12), (3, 13)]
RULE = ("seeded histories (length 0..12) over the public operations load_module, disassemble_file in six formats, get_opcode, "
        "get_opcode_module, make_std_api (+ get_instructions) incl. the 'pypy' variant, Bytecode iteration, marsh dumps/loads (host and other target versions), xdis.marsh.loads on the payloads of real Python 2.4-2.7 files (pairs of different files one after the other whatever the seed), on corpus files of all versions incl. the dropbox-encrypted ones; "
        "each history then a probe runs in its own forked process; monitor 1: digest of the probe's result and of its captured output "
        "equals the digest of the same probe run first in a fresh process, and the probe repeated equals itself; monitor 2: SHA-1 digests "
        "of every module-level table a later call reads (all opcode modules, magics tables, op_imports, std default API, fields2copy) "
        "before and after every operation. explicit alternate_opmap remapping is excluded (documented exception). one evaluation = one "
        "(history, probe); distinct = history of length >= 2")


PY2_FILES = []


def gen_op(rng, files):
    k = rng.random()
    f = rng.choice(files)
    if k < 0.05 and PY2_FILES:
        return {"op": "marsh_loads_py2", "file": rng.choice(PY2_FILES)}
    if k < 0.22:
        return {"op": "load_module", "file": f}
    if k < 0.52:
        return {"op": "disassemble_file", "file": f, "fmt": rng.choice(FORMATS)}
    pypy_versions = [(2, 7), (3, 5), (3, 6), (3, 7), (3, 8), (3, 9), (3, 10)]
    if k < 0.60:
        if rng.random() < 0.3:
            return {"op": "get_opcode", "version": list(rng.choice(pypy_versions)), "pypy": True}
        return {"op": "get_opcode", "version": list(rng.choice(VERS)), "pypy": False}
    if k < 0.68:
        if rng.random() < 0.3:
            return {"op": "get_opcode_module", "version": list(rng.choice(pypy_versions)), "variant": "pypy"}
        return {"op": "get_opcode_module", "version": list(rng.choice([v for v in VERS if v >= (2, 5)]))}
    if k < 0.82:
        if rng.random() < 0.35:
            return {"op": "make_std_api", "version": list(rng.choice(pypy_versions)), "variant": "pypy"}
        v = rng.choice([(2, 7), (3, 6), (3, 8), (3, 9), (3, 10), (3, 11), (3, 12)] + pypy_versions)
        return {"op": "make_std_api", "version": list(v)}
    if k < 0.90:
        return {"op": "bytecode", "file": f}
    if k < 0.95:
        return {"op": "marsh", "vseed": rng.randrange(10 ** 6), "target": list(rng.choice([(2, 7), (2, 5), (3, 8), (3, 6)]))}
    return {"op": "marsh", "vseed": rng.randrange(10 ** 6)}


def run(tier, scratch, t0, replay=None):
    res = K.Result("C18")
    quick = tier == "quick"
    rng = K.rng_for("C18")
    files = [p for p in K.corpus_files() if os.path.getsize(p) < 5000 or "dropbox" in p]
    files = rng.sample(files, min(len(files), 110 if quick else 1000))
    # fresh files of every reference version (the corpus stops at 3.12): programs with loops / async / try so that the
    # version-specific jump and cache tables are exercised one after the other
    from .. import diffpipe as D

    batches = D.build_batches(scratch, sorted(K.available_interps()), tier, "C18", n_stdlib=0, n_gen=1 if quick else 6, batch=40,
                              with_corpus=False, gen_snippets=2,
                              must_templates=["t_control", "t_async", "t_comp", "t_long_loop", "t_ints"])
    for b in batches:
        tf, err = K.run_truth(b["v"], "compile", {"items": b["items"], "sections": [], "mode": "compile"}, b["workdir"], b["tag"])
        if tf is None:
            res.inconclusive.append("compile %s: %s" % (K.vstr(b["v"]), err))
            continue
        files += [it["pyc"] for it in b["items"] if os.path.exists(it["pyc"]) and os.path.getsize(it["pyc"]) < 12000]
    # whatever the seed: a file of one version listed, then a file of a neighbouring version (and back): tables derived from
    # the neighbour's must not have been touched
    by_v = {}
    for b in batches:
        for it in b["items"]:
            if os.path.exists(it["pyc"]) and "t_control" in it["pyc"] and os.path.getsize(it["pyc"]) < 12000:
                by_v.setdefault(b["v"], it["pyc"])
    neighbour_hists = []
    vv = sorted(by_v)
    for i, v1 in enumerate(vv):
        for v2 in vv[max(0, i - 2):i + 3]:
            if v1 == v2:
                continue
            neighbour_hists.append({"ops": [{"op": "disassemble_file", "file": by_v[v1], "fmt": "classic"}],
                                    "probe": {"op": "disassemble_file", "file": by_v[v2], "fmt": "classic"}})
            neighbour_hists.append({"ops": [{"op": "bytecode", "file": by_v[v2]}, {"op": "bytecode", "file": by_v[v1]}],
                                    "probe": {"op": "bytecode", "file": by_v[v2]}})
    # corrupt variants of the dropbox-encrypted files (a failed load must leave no trace either)
    cdir = scratch.sub("corrupt")
    for p in [f for f in K.corpus_files() if "dropbox" in f][:4]:
        data = open(p, "rb").read()
        for j, mut in enumerate((data[:len(data) // 2], data[:40] + bytes([data[40] ^ 0xFF]) + data[41:],
                                 data[:200] + b"\x00" * 8 + data[208:])):
            q = os.path.join(cdir, "%s.corrupt%d.pyc" % (os.path.basename(p)[:-4], j))
            with open(q, "wb") as f:
                f.write(mut)
            files.append(q)
    # real Python 2.4-2.7 payloads for xdis.marsh.loads (string interning state lives in the reader)
    del PY2_FILES[:]
    for p in K.corpus_files():
        d = os.path.basename(os.path.dirname(p))
        if d in ("bytecode_2.4", "bytecode_2.5", "bytecode_2.6", "bytecode_2.7") and os.path.getsize(p) < 4000:
            PY2_FILES.append(p)
    PY2_FILES.sort()
    # ... and fresh ones: generated 2.7 programs written by 2.7 itself in marshal format 1 (text floats, 't' / 'R' strings),
    # the format xdis.marsh.loads reads
    if (2, 7) in K.available_interps():
        b1 = D.build_batches(scratch, [(2, 7)], tier, "C18-py2v1", n_stdlib=0, n_gen=6 if quick else 40, batch=60, with_corpus=False,
                             gen_snippets=2, must_templates=["t_strings", "t_closure", "t_class2", "t_control"])
        for b in b1:
            for it in b["items"]:
                it["marshal_version"] = 1
                it["pyc"] = it["pyc"][:-4] + ".v1.pyc"
            tf, err = K.run_truth((2, 7), "compile", {"items": b["items"], "sections": [], "mode": "compile"}, b["workdir"], b["tag"] + "v1")
            if tf is None:
                res.inconclusive.append("compile 2.7 (marshal 1): %s" % err)
                continue
            PY2_FILES.extend(it["pyc"] for it in b["items"] if os.path.exists(it["pyc"]) and os.path.getsize(it["pyc"]) < 12000)
    n = 480 if quick else 20000
    hists = list(neighbour_hists)
    # whatever the seed: the PyPy flavour of a version asked first, then the CPython flavour of the same version (and back),
    # through each lookup entry point
    for v in [(2, 7), (3, 6), (3, 7), (3, 8), (3, 9), (3, 10)]:
        for kind in ("get_opcode_module", "make_std_api"):
            py = {"op": kind, "version": list(v), "variant": "pypy"}
            cp = {"op": kind, "version": list(v)}
            hists.append({"ops": [py], "probe": cp})
            hists.append({"ops": [cp], "probe": py})
        hists.append({"ops": [{"op": "get_opcode", "version": list(v), "pypy": True}], "probe": {"op": "get_opcode", "version": list(v), "pypy": False}})
        if v in by_v:
            hists.append({"ops": [{"op": "get_opcode_module", "version": list(v), "variant": "pypy"}],
                          "probe": {"op": "bytecode", "file": by_v[v]}})
    # ... a Python 2 file with ints beyond the decimal-conversion limit listed before a Python 3 file with such ints
    big = {}
    for b in batches:
        for it in b["items"]:
            if os.path.exists(it["pyc"]) and "t_ints" in it["pyc"]:
                big.setdefault(b["v"], it["pyc"])
    for v2 in sorted(big):
        for v1 in sorted(big):
            if v1 != v2 and (v1 < (3, 0)) != (v2 < (3, 0)):
                hists.append({"ops": [{"op": "disassemble_file", "file": big[v1], "fmt": "classic"}],
                              "probe": {"op": "disassemble_file", "file": big[v2], "fmt": "classic"}})
    # ... and *source* files given to disassemble_file (compiled by the host on the fly): two different files with the same
    # base name in two directories, one after the other
    sdir = scratch.sub("src")
    srcs = []
    for i, body in enumerate(("x = 1\nprint(x + 41)\n", "def f(a):\n    return [a, 'second']\nprint(f(2))\n")):
        d = os.path.join(sdir, "d%d" % i)
        os.makedirs(d, exist_ok=True)
        with open(os.path.join(d, "mod.py"), "w") as f:
            f.write(body)
        srcs.append(os.path.join(d, "mod.py"))
    for a, b2 in ((0, 1), (1, 0)):
        hists.append({"ops": [{"op": "disassemble_file", "file": srcs[a], "fmt": "classic"}],
                      "probe": {"op": "disassemble_file", "file": srcs[b2], "fmt": "classic"}})
        hists.append({"ops": [{"op": "disassemble_file", "file": srcs[a], "fmt": "bytes"}, {"op": "disassemble_file", "file": srcs[a], "fmt": "classic"}],
                      "probe": {"op": "disassemble_file", "file": srcs[b2], "fmt": "extended"}})
    # whatever the seed: listings of two files whose constant tuples are equal but not the same constants, in both orders and
    # across versions (state keyed by equality would show one file's constants in the other's listing)
    eq = {}
    for bb in D.build_batches(scratch, [v for v in [(2, 7), (3, 6), (3, 9), (3, 12)] if v in K.available_interps()], tier, "C18-eq", n_stdlib=0,
                              n_gen=0, batch=10, with_corpus=False, must_templates=["t_eq_tuples_a", "t_eq_tuples_b"]):
        tf, err = K.run_truth(bb["v"], "compile", {"items": bb["items"], "sections": [], "mode": "compile"}, bb["workdir"], bb["tag"] + "eq")
        for it in bb["items"]:
            if os.path.exists(it["pyc"]):
                eq.setdefault(bb["v"], {})["a" if "tuples_a" in it["pyc"] else "b"] = it["pyc"]
    pairs = []
    for v, d in sorted(eq.items()):
        if "a" in d and "b" in d:
            pairs += [(d["a"], d["b"]), (d["b"], d["a"])]
    vs_ = sorted(eq)
    for v1, v2 in zip(vs_, vs_[1:]):
        if "a" in eq[v1] and "b" in eq[v2]:
            pairs += [(eq[v1]["a"], eq[v2]["b"]), (eq[v2]["b"], eq[v1]["a"])]
    for first, second in pairs:
        for fmt in ("classic", "extended"):
            hists.append({"ops": [{"op": "disassemble_file", "file": first, "fmt": fmt}],
                          "probe": {"op": "disassemble_file", "file": second, "fmt": fmt}})
    # whatever the seed: pairs of *different* Python 2 payloads one after the other, and a failed load before a good one
    for i in range(0, min(len(PY2_FILES) - 1, 24 if quick else 200), 2):
        a, b2 = PY2_FILES[i], PY2_FILES[-1 - i]
        hists.append({"ops": [{"op": "marsh_loads_py2", "file": a}], "probe": {"op": "marsh_loads_py2", "file": b2}})
        hists.append({"ops": [{"op": "load_module", "file": a}, {"op": "marsh_loads_py2", "file": b2}],
                      "probe": {"op": "disassemble_file", "file": a, "fmt": "classic"}})
    for i in range(n):
        k = rng.choice([0, 1, 2, 2, 3, 4, 6, 8, 12])
        hists.append({"ops": [gen_op(rng, files) for _ in range(k)], "probe": gen_op(rng, files)})
    chunks = list(K.chunks(hists, 30 if quick else 250))
    hosts = [K.MAIN_HOST] * len(chunks)
    others = [h for h in sorted(K.available_hosts()) if h != K.MAIN_HOST]
    for i in range(len(chunks)):
        if i % 4 == 3 and others:
            hosts[i] = others[(i // 4) % len(others)]

    def job(ci):
        i, ch = ci
        return K.run_agent(hosts[i], "history", {"histories": ch}, scratch.root, "hist%d" % i, timeout=3000)

    for (i, ch), (out, err, so, se) in zip(enumerate(chunks), K.pmap(job, list(enumerate(chunks)))):
        if out is None:
            res.inconclusive.append("history batch %d: %s" % (i, err))
            continue
        res.merge_agent(out)
        res.count("histories_host_" + K.vstr(hosts[i]), len(ch))
    if not res.counters.get("c18_state_digest_comparisons"):
        res.inconclusive.append("state-digest monitor never evaluated")
    return K.finish(res, tier, "exploration", RULE, t0,
                    assumptions=["a forked child of a process that has only imported xdis is the fresh-process model",
                                 "growth of never-read mutable default containers is informational only"], min_eval=200)
