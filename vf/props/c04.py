"""C04 - see DESIGN.md s7."""
from .. import common as K
from .. import diffpipe as D
from . import _diffprops as DP


def run(tier, scratch, t0, replay=None):
    return DP.run_prop("C04", tier, scratch, t0)
