"""C09 - opcode tables match the interpreter's own opcode module."""
import json

from .. import common as K

CATS = ["hasjrel", "hasjabs", "hasconst", "hasname", "haslocal", "hasfree", "hascompare"]
RULE = ("finite domain enumerated completely: every opcode module reachable from xdis.op_imports x 256 opcode numbers x "
        "{name<->number bijection, category => defined and >= HAVE_ARGUMENT (unless the reference table has the same gap), "
        "hasjrel/hasjabs disjoint, opcodes whose documented name says jump (JUMP_*, POP_JUMP_*, FOR_ITER, FOR_LOOP, SETUP_LOOP/EXCEPT/FINALLY/WITH, CONTINUE_LOOP, CALL_FINALLY, SEND) categorised as jumps, EXTENDED_ARG defined with the version's shift}; for the nine versions with a reference "
        "interpreter additionally opmap, HAVE_ARGUMENT, EXTENDED_ARG and each category set vs `opcode` of that interpreter; "
        "table dump taken on several hosts and required identical. One evaluation = one (table, opcode, attribute) comparison "
        "or invariant; distinct = (table, opcode); non-trivial = defined opcodes")


import re

JUMP_NAME = re.compile(r"^(JUMP|JUMP_.*|POP_JUMP_.*|FOR_ITER|FOR_LOOP|SETUP_LOOP|SETUP_EXCEPT|SETUP_FINALLY|SETUP_WITH|SETUP_ASYNC_WITH|"
                       r"CONTINUE_LOOP|CALL_FINALLY|SEND)$")


def fixname(n):
    return n.replace("+", "_")


def check_table(res, name, t, ref):
    """Invariants on one table; `ref` is the reference interpreter's dump or None."""
    vt = tuple(t["version_tuple"])
    opmap, opname = t["opmap"], t["opname"]
    have = t["HAVE_ARGUMENT"]
    # bijection
    for n, num in sorted(opmap.items()):
        res.evaluations += 1
        if not (0 <= num < len(opname)):
            if num >= 256:
                continue  # pseudo-ops live outside the 256-entry array
            res.mismatches.append({"key": "C09|%s|bijection|number-out-of-range" % name, "detail": {"name": n, "num": num}})
            continue
        if fixname(opname[num]) != n:
            res.mismatches.append({"key": "C09|%s|bijection|opmap->opname|%s" % (name, n),
                                   "detail": {"name": n, "num": num, "opname_at_num": opname[num]}})
        res.distinct.add(K.sha([name, num]))
    for num, n in enumerate(opname[:256]):
        res.evaluations += 1
        if n.startswith("<") and n.endswith(">"):
            continue
        if opmap.get(fixname(n)) != num:
            res.mismatches.append({"key": "C09|%s|bijection|opname->opmap|%s" % (name, n),
                                   "detail": {"name": n, "num": num, "opmap": opmap.get(fixname(n))}})
    defined = set(opmap.values())
    ref_cats = ref or {}
    for cat in CATS:
        lst = t.get(cat) or []
        for op in lst:
            res.evaluations += 1
            if op not in defined:
                if ref and op in set(ref.get(cat, [])) and op not in set(ref["opmap"].values()):
                    res.count("c09_gap_shared_with_reference")
                    continue
                res.mismatches.append({"key": "C09|%s|category-undefined|%s|%d" % (name, cat, op), "detail": {"op": op}})
            elif op < have:
                if ref and op in set(ref.get(cat, [])) and op < ref["HAVE_ARGUMENT"]:
                    res.count("c09_gap_shared_with_reference")
                    continue
                res.mismatches.append({"key": "C09|%s|category-below-HAVE_ARGUMENT|%s|%s" % (name, cat, opname[op]),
                                       "detail": {"op": op, "HAVE_ARGUMENT": have}})
    # opcodes CPython documents as jumps (by name, the same in every release that has them) must be categorised as jumps:
    # the only way to judge tables of releases without an installed interpreter (1.0-2.6, 3.0-3.5, PyPy)
    jumps = set(t.get("hasjrel") or []) | set(t.get("hasjabs") or [])
    for n, num in sorted(opmap.items()):
        if num < 256 and JUMP_NAME.match(n):
            res.evaluations += 1
            res.count("c09_jump_named_opcodes")
            if num not in jumps:
                res.mismatches.append({"key": "C09|%s|jump-by-name-not-categorised|%s" % (name, n), "detail": {"op": num}})
    res.evaluations += 1
    both = set(t.get("hasjrel") or []) & set(t.get("hasjabs") or [])
    if both:
        res.mismatches.append({"key": "C09|%s|jrel-and-jabs" % name, "detail": {"ops": sorted(both)}})
    res.evaluations += 1
    ea = t.get("EXTENDED_ARG")
    if ea is None or opmap.get("EXTENDED_ARG") != ea:
        res.mismatches.append({"key": "C09|%s|EXTENDED_ARG-undefined" % name, "detail": {"EXTENDED_ARG": ea}})
    want_shift = 16 if vt < (3, 6) else 8
    if t.get("EXTENDED_ARG_SHIFT") != want_shift:
        res.mismatches.append({"key": "C09|%s|EXTENDED_ARG_SHIFT" % name,
                               "detail": {"got": t.get("EXTENDED_ARG_SHIFT"), "want": want_shift}})
    # frozenset views agree with the lists
    for cat, st in (("hasjrel", "JREL_OPS"), ("hasjabs", "JABS_OPS"), ("hasconst", "CONST_OPS"), ("hasname", "NAME_OPS"),
                    ("haslocal", "LOCAL_OPS"), ("hasfree", "FREE_OPS"), ("hascompare", "COMPARE_OPS")):
        if t.get(st) is not None:
            res.evaluations += 1
            if sorted(set(t.get(cat) or [])) != t[st]:
                res.mismatches.append({"key": "C09|%s|set-vs-list|%s" % (name, cat),
                                       "detail": {"list": t.get(cat), "set": t[st]}})


def compare_ref(res, name, t, ref, v):
    vs = K.vstr(v)
    ropmap = dict((fixname(k), n) for k, n in ref["opmap"].items())
    xopmap = t["opmap"]
    for n in sorted(set(ropmap) | set(xopmap)):
        res.evaluations += 1
        a, b = ropmap.get(n), xopmap.get(n)
        if a != b:
            kind = "missing" if b is None else ("extra" if a is None else "number")
            res.mismatches.append({"key": "C09|v%s|opmap|%s|%s" % (vs, kind, n), "detail": {"reference": a, "xdis": b}})
    res.evaluations += 1
    if ref["HAVE_ARGUMENT"] != t["HAVE_ARGUMENT"]:
        res.mismatches.append({"key": "C09|v%s|HAVE_ARGUMENT" % vs, "detail": {"reference": ref["HAVE_ARGUMENT"], "xdis": t["HAVE_ARGUMENT"]}})
    res.evaluations += 1
    if ref["EXTENDED_ARG"] != t["EXTENDED_ARG"]:
        res.mismatches.append({"key": "C09|v%s|EXTENDED_ARG" % vs, "detail": {"reference": ref["EXTENDED_ARG"], "xdis": t["EXTENDED_ARG"]}})
    cats = list(CATS)
    for extra in ("hasarg", "hasexc", "hasjump"):
        # added to `opcode` in 3.12 / 3.13: compared wherever both sides define them
        if ref.get(extra) is not None and t.get(extra) is not None:
            cats.append(extra)
    for cat in cats:
        a, b = set(ref.get(cat, [])), set(t.get(cat) or [])
        for op in sorted(a | b):
            res.evaluations += 1
            if (op in a) != (op in b):
                nm = ref["opname"][op] if op < len(ref["opname"]) else str(op)
                res.mismatches.append({"key": "C09|v%s|%s|%s|%s" % (vs, cat, "missing" if op in a else "extra", nm),
                                       "detail": {"op": op, "in_reference": op in a, "in_xdis": op in b}})


def run(tier, scratch, t0, replay=None):
    res = K.Result("C09")
    refs = {}
    for v in sorted(K.available_interps()):
        tf, err = K.run_truth(v, "tables", {}, scratch.root, "tab%d%d" % v)
        if tf is None:
            res.inconclusive.append("tables of %s: %s" % (K.vstr(v), err))
            continue
        refs[v] = K.read_jsonl(tf)[0]
    av = sorted(K.available_hosts())
    hosts = sorted(set([K.MAIN_HOST, av[0], av[-1]])) if tier == "quick" else av  # oldest, main, newest host on every run
    dumps = {}
    for h in hosts:
        out, err, so, se = K.run_agent(h, "tables", {"versions": [list(v) for v in refs]}, scratch.root, "tables-h%d%d" % h)
        if out is None:
            res.inconclusive.append("host %s: %s" % (K.vstr(h), err))
            continue
        dumps[h] = out
        res.count("hosts")
    if K.MAIN_HOST not in dumps:
        res.inconclusive.append("no table dump from the main host")
        return K.finish(res, tier, "exploration", RULE, t0)
    main = dumps[K.MAIN_HOST]
    by_version = {}
    for name, t in sorted(main["tables"].items()):
        vt = tuple(t["version_tuple"][:2])
        ref = refs.get(vt) if not t["is_pypy"] else None
        check_table(res, name.split(".")[-1], t, ref)
        res.count("tables")
    # the table xdis *uses*: every lookup key must reach a table of its own major.minor and of its own flavour
    # (flavour as xdis's own canonical name for the key says: a few PyPy 3.9 releases canonically share CPython's magic)
    import re

    for key, modname in sorted(main.get("lookups", {}).items()):
        m = re.match(r"(\d+)\.(\d+)", key)
        if not m:
            continue
        res.evaluations += 1
        res.count("lookup_keys")
        t = main["tables"][modname]
        want_v = [int(m.group(1)), int(m.group(2))]
        want_pypy = "pypy" in main["canonic"].get(key, key).lower()
        if t["version_tuple"][:2] != want_v or t["is_pypy"] != want_pypy:
            res.mismatches.append({"key": "C09|lookup|op_imports[%s]->%s" % (key, modname.split(".")[-1]),
                                   "detail": {"key": key, "table_version": t["version_tuple"], "table_is_pypy": t["is_pypy"],
                                              "canonic": main["canonic"].get(key)}})
    for k, modname in sorted(main.get("get_opcode_module", {}).items()):
        res.evaluations += 1
        res.count("lookup_pairs")
        if modname.startswith("raises:"):
            res.count("lookup_pair_refused")
            continue
        vs_, variant = k.split("/")
        t = main["tables"].get(modname)
        if variant == "float" or variant.startswith("micro"):
            variant = None
        if t is None or ".".join(str(x) for x in t["version_tuple"][:2]) != vs_ or t["is_pypy"] != (variant == "pypy"):
            res.mismatches.append({"key": "C09|lookup|get_opcode_module(%s)->%s" % (k, modname.split(".")[-1]),
                                   "detail": {"table_version": t and t["version_tuple"], "table_is_pypy": t and t["is_pypy"]}})
    for v, ref in sorted(refs.items()):
        modname = main["get_opcode"].get(K.vstr(v))
        if not modname or modname.startswith("raises"):
            res.mismatches.append({"key": "C09|v%s|get_opcode-%s" % (K.vstr(v), modname), "detail": {}})
            continue
        compare_ref(res, modname, main["tables"][modname], ref, v)
        res.count("tables_with_reference")
        res.sample({"version": K.vstr(v), "module": modname, "opcodes_defined": len(ref["opmap"]),
                    "HAVE_ARGUMENT": ref["HAVE_ARGUMENT"]})
    # host independence of the tables (built at import, partly host dependent)
    for h, d in sorted(dumps.items()):
        if h == K.MAIN_HOST:
            continue
        for name, t in sorted(d["tables"].items()):
            res.evaluations += 1
            mt = main["tables"].get(name)
            if mt != t:
                diff = [k for k in t if mt is None or mt.get(k) != t.get(k)]
                res.mismatches.append({"key": "C09|host-dependent-table|%s|%s" % (name.split(".")[-1], ",".join(sorted(diff))),
                                       "detail": {"host": K.vstr(h), "fields": diff}})
    res.extra["exhaustive"] = True
    return K.finish(res, tier, "exploration", RULE, t0,
                    assumptions=["`opcode` module of each installed interpreter is the reference for its version",
                                 "versions without an interpreter (1.x-2.6, 3.0-3.5, PyPy) get the reference-free invariants only"],
                    min_eval=5000)
