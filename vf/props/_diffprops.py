"""Shared driver for the properties decided by the file differential pipeline."""
from .. import common as K
from .. import diffpipe as D

ALLV = [(2, 7), (3, 6), (3, 7), (3, 8), (3, 9), (3, 10), (3, 11), (3, 12), (3, 13)]

CONF = {
    "C02": dict(must=["t_opcode_zoo", "t_opcode_zoo2", "t_many_consts", "t_many_names", "t_many_locals", "t_long_body"],
                versions=ALLV, sections=["dis"], focus=["EXTENDED_ARG", "many_consts", "many_names", "long_body", "many_locals"],
                quick=(40, 30), thorough=(900, 300), max_code_quick=6000, max_code_thorough=10000, min_eval=200,
                rule="one evaluation = one code object's instruction stream from xdis.Bytecode(co, opc) checked for exact tiling of "
                     "co_code and compared at V's offsets (opcode, opname, folded operand) with V's dis.get_instructions "
                     "(2.7: interpreter's opcode tables cross-checked against dis.disassemble text); distinct = SHA-1 of co_code; "
                     "non-trivial = >= 8 instructions or contains EXTENDED_ARG"),
    "C03": dict(must=["t_opcode_zoo", "t_opcode_zoo2", "t_closure", "t_class3", "t_pep695", "t_many_consts", "t_many_names", "t_many_locals", "t_compare", "t_comp"],
                versions=ALLV, sections=["dis"], focus=["closure", "cell_param", "class", "comprehension", "many_consts", "many_names",
                                                        "many_locals", "compare", "super"],
                quick=(40, 40), thorough=(900, 300), max_code_quick=6000, max_code_thorough=10000, min_eval=1000,
                rule="one evaluation = one table-indexed instruction (const/name/local/free/compare) whose canonical argval from xdis "
                     "is compared with V's dis argval at the same offset; distinct = (version, opname, operand class, big-table flag); "
                     "non-trivial = operand != 0"),
    "C04": dict(must=["t_big_try", "t_opcode_zoo", "t_opcode_zoo2", "t_async", "t_control", "t_try_nest", "t_match", "t_long_body", "t_comp", "t_long_loop", "t_except_star"],
                versions=ALLV, sections=["dis", "labels"], focus=["loops", "try", "async", "match", "long_jump", "generator", "try_nest"],
                quick=(40, 40), thorough=(900, 300), max_code_quick=6000, max_code_thorough=10000, min_eval=200,
                rule="one evaluation = one code object: set(opc.findlabels) vs V's dis.findlabels, every jump argval vs V's, "
                     "is_jump_target flags vs labels U 3.11+ handler targets, every label an instruction start or len(co_code); "
                     "distinct = SHA-1 of co_code; non-trivial = has >= 1 jump"),
    "C05": dict(must=["t_opcode_zoo", "t_opcode_zoo2", "t_line_gaps", "t_backward_lines", "t_long_loop", "t_long_columns", "t_doc"],
                versions=ALLV, sections=["dis", "lines"], focus=["line_gaps", "backward_lines", "multiline_expr", "long_columns"],
                quick=(25, 30), thorough=(400, 200), max_code_quick=3000, max_code_thorough=8000, min_eval=200,
                rule="one evaluation = one code object: list(opc.findlinestarts(co)) vs V's dis.findlinestarts, starts_line of the "
                     "dup_lines=False stream exact and of the dup_lines=True stream a consistent superset, plus offset2line queries "
                     "against a linear scan; distinct = SHA-1 of (line starts, firstlineno); non-trivial = >= 2 line starts"),
    "C17": dict(must=["t_big_try", "t_opcode_zoo", "t_opcode_zoo2", "t_long_columns", "t_line_gaps", "t_backward_lines", "t_long_loop", "t_try_nest", "t_except_star", "t_async", "t_control"],
                versions=[(3, 11), (3, 12), (3, 13)], sections=["pos"], focus=["try", "try_nest", "long_columns", "line_gaps",
                                                                                "backward_lines", "except_star", "async"],
                quick=(80, 60), thorough=(2500, 600), max_code_quick=1 << 30, max_code_thorough=1 << 30, min_eval=200,
                rule="one evaluation = one 3.11+ portable code object (xdis unmarshaller): parse_exception_table entries, "
                     "co_positions() expanded per code unit and co_lines() as code-unit->line map compared with V's "
                     "dis._parse_exception_table / co_positions() / co_lines(); distinct = SHA-1 of (linetable, exceptiontable); "
                     "non-trivial = non-empty line table"),
}


def run_prop(prop, tier, scratch, t0, extra=None):
    cf = CONF[prop]
    res = K.Result(prop)
    quick = tier == "quick"
    n_std, n_gen = cf["quick"] if quick else cf["thorough"]
    batches = D.build_batches(scratch, cf["versions"], tier, prop, n_stdlib=n_std, n_gen=n_gen,
                              batch=10 if quick else 30, focus=cf["focus"], must_templates=cf.get("must", ()))
    if prop in ("C02", "C04"):
        # workload B: synthetic co_code with 1-3 EXTENDED_ARG prefixes and long forward jumps, built by V itself
        batches += D.synthetic_code_batches(scratch, cf["versions"], 60 if quick else 1500, prop)
    if prop == "C03":
        # workload T: 66 000-entry constant and name tables indexed at the boundary operands (EXTENDED_ARG carries the high part)
        batches += D.synthetic_bigtable_batches(scratch, cf["versions"], prop)
    if prop in ("C05", "C17"):
        # workload L: synthetic line / location / exception tables installed by V itself
        batches += D.synthetic_table_batches(scratch, cf["versions"], 80 if quick else 3000, prop)
    D.run_diff(res, batches, cf["sections"], [prop],
               max_code=cf["max_code_quick"] if quick else cf["max_code_thorough"])
    if prop in ("C02", "C04", "C05"):
        D.corpus_invariants(res, scratch, [prop], tier)
    if extra:
        extra(res, tier, scratch)
    return K.finish(res, tier, "exploration", cf["rule"], t0,
                    assumptions=["reference interpreters 2.7/3.6-3.13 are the oracle for their own bytecode",
                                 "inputs are files written by V itself; versions without an interpreter are not compared here"],
                    min_eval=cf["min_eval"])
