"""C10 - every marshal encoding of a constant decodes to the same value."""
import binascii
import json
import os

from .. import common as K
from ..gen import marshal_synth as MS

VERSIONS = [(2, 7), (3, 6), (3, 7), (3, 8), (3, 9), (3, 10), (3, 11), (3, 12), (3, 13)]
# Versions without an installed interpreter whose marshal format and code-object layout are those of an installed one:
# the stream is judged by that interpreter (format-equivalent reference) and handed to xdis under the old version's magic.
# Only versions whose format the synthesiser does not exceed: 2.5/2.6 (marshal 2 = 2.7), 3.0-3.3 (marshal 2, no references,
# text only as 'u'), 3.4/3.5 (marshal 3/4 = 3.6).  Magic numbers from CPython's own registry (Lib/importlib/_bootstrap_external.py).
EQUIV = {(2, 5): ((2, 7), 62131), (2, 6): ((2, 7), 62161), (3, 0): ((3, 6), 3131), (3, 1): ((3, 6), 3151), (3, 2): ((3, 6), 3180),
         (3, 3): ((3, 6), 3230), (3, 4): ((3, 6), 3310), (3, 5): ((3, 6), 3351)}
RULE = ("hand-written marshal streams (independent synthesiser): value trees x encoding choices (i / I / l ints, text f/x and binary g/y "
        "floats and complex, s / t / R strings for Python 2, u / a / A / z / Z / t text forms, FLAG_REF on any object kind and r "
        "back-references to any completed object at any depth, small and large tuples, lists, dicts incl. None keys/values, sets, "
        "frozensets, sizes 0..300) wrapped as co_consts of a minimal code object of version V; the reference interpreter's own "
        "marshal.loads decides validity (rejected streams are discarded and counted) and gives the expected canonical value with "
        "shared objects expanded at every reference; observed through xdis.unmarshal.load_code. one evaluation = one accepted stream; "
        "distinct = (element labels, type-code set); non-trivial = uses a non-singleton element, a FLAG_REF or a back-reference")


def run(tier, scratch, t0, replay=None):
    res = K.Result("C10")
    quick = tier == "quick"
    per_v = 1500 if quick else 60000
    jobs = []
    for v in VERSIONS:
        if v not in K.available_interps():
            continue
        nb = 2 if quick else 12
        for part in range(nb):
            jobs.append((v, part, per_v // nb))

    magic_of = {}
    ref_of = {}
    for v, (rv, magic) in sorted(EQUIV.items()):
        if rv in K.available_interps():
            jobs.append((v, 0, per_v // 3))
            magic_of[v] = magic
            ref_of[v] = rv
    for v in set(j[0] for j in jobs if j[0] not in EQUIV):
        tf, err = K.run_truth(v, "magic", {}, scratch.root, "mg%d%d" % v)
        if tf:
            hexm = K.read_jsonl(tf)[0]["magic"]
            magic_of[v] = int.from_bytes(binascii.unhexlify(hexm)[:2], "little")

    def job(j):
        v, part, n = j
        if v not in magic_of:
            return None, "no magic for %s" % K.vstr(v)
        rng = K.rng_for("C10", v, part)
        streams = []
        for i in range(n):
            labels, payload, codes = MS.make_stream(rng, v)
            streams.append({"hex": binascii.hexlify(payload).decode(), "labels": labels, "codes": codes})
        if part == 0:
            # string-like objects above 1 MiB, one per type code the version has (thorough: every part, other lengths)
            for form in MS.big_forms(v):
                labels, payload, codes = MS.make_big_stream(rng, v, form)
                streams.append({"hex": binascii.hexlify(payload).decode(), "labels": labels, "codes": codes})
        tag = "ms%d%d-%d" % (v[0], v[1], part)
        sp = os.path.join(scratch.root, tag + ".streams.json")
        with open(sp, "w") as f:
            json.dump(streams, f)
        tf, err = K.run_truth(ref_of.get(v, v), "loads", {"streams": [s["hex"] for s in streams], "wrap": True}, scratch.root, tag, timeout=1800)
        if tf is None:
            return None, "truth %s: %s" % (K.vstr(v), err)
        out, aerr, so, se = K.run_agent(K.MAIN_HOST, "marshsynth", {"version": list(v), "magic_int": magic_of[v], "streams": sp,
                                                                   "truth": tf}, scratch.root, tag, timeout=1800)
        if out is None:
            return None, "agent %s: %s" % (K.vstr(v), aerr)
        return out, None

    for j, (out, err) in zip(jobs, K.pmap(job, jobs)):
        if out is None:
            res.inconclusive.append(err)
            continue
        res.merge_agent(out)
        res.count("streams_v" + K.vstr(j[0]) + ("_judged_by_" + K.vstr(ref_of[j[0]]) if j[0] in ref_of else ""), out["evaluations"])
    return K.finish(res, tier, "exploration", RULE, t0,
                    assumptions=["the reference interpreter's marshal.loads decides which encodings the format permits for V and what they mean",
                                 "the synthesiser is untrusted: its streams are always judged by a real interpreter first",
                                 "2.5/2.6 streams are judged by 2.7 and 3.0-3.5 streams by 3.6 (identical marshal format and code-object layout)"], min_eval=2000)
