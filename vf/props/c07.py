"""C07 - results do not depend on the host Python or on the loader path."""
import json
import os
import re

from .. import common as K
from .. import diffpipe as D

FORMATS = ["classic", "bytes", "extended", "extended-bytes", "xasm", "header"]
RULE = ("the whole historical corpus plus files freshly compiled by each host's own interpreter, rendered on every host able to import "
        "the package (3.8-3.13): canonical code tree, instruction stream (+labels, line starts) and the masked listing text of all six "
        "formats; for a file of the host's own version additionally the portable unmarshaller on the same bytes, "
        "Bytecode(codeType2Portable(native)) and disco() on the portable tree. Oracle = consensus: every rendering of one file must be "
        "identical across hosts and across loader paths. one evaluation = one (file, component, pair of hosts or paths) digest "
        "comparison; distinct = file; non-trivial = file has >= 1 nested code object")


def first_diff_line(a, b):
    la, lb = a.split("\n"), b.split("\n")
    for i, (x, y) in enumerate(zip(la, lb)):
        if x != y:
            return i, x, y
    return min(len(la), len(lb)), "<end>" if len(la) <= len(lb) else la[len(lb)], "<end>" if len(lb) <= len(la) else lb[len(la)]


_CODE_REPR = [re.compile(r"<Code\w* code object (.+?) at 0x\?, file (.*?)>(?:, line (\d+))?"),
              re.compile(r"<code object (.+?) at 0x\?, file \"(.*?)\", line (\d+)>"),
              re.compile(r"<code\d* object (.+?) at 0x\?, file \"(.*?)\", line (\d+)>")]


def norm_code_repr(s):
    for rx in _CODE_REPR:
        s = rx.sub(lambda m: "<code %s %s %s>" % (m.group(1), m.group(2), m.group(3)), s)
    return s


def norm_escapes(s):
    """Every non-ASCII character in the escaped form repr() would use for an unprintable one."""
    return s.encode("ascii", "backslashreplace").decode("ascii")


def norm_long(s):
    return re.sub(r"\b(\d+)L\b", r"\1", s)


def diff_lines(a, b, limit=6):
    """Differing line pairs, one per structural class: line by line when both renderings have the same number of
    lines (so one known mechanism cannot hide another further down), else only the first difference."""
    la, lb = a.split("\n"), b.split("\n")
    if len(la) != len(lb):
        return [first_diff_line(a, b)]
    out, seen = [], set()
    for i, (x, y) in enumerate(zip(la, lb)):
        if x != y:
            c = classify("listing" if x.startswith(("#", " ")) or True else "", x, y) if False else (x[:0])
            k = (norm_long(norm_code_repr(x)) == norm_long(norm_code_repr(y)), norm_code_repr(x) == norm_code_repr(y),
                 norm_escapes(x) == norm_escapes(y), re.sub(r"[^A-Za-z_ ]", "", x)[:24])
            if k in seen:
                continue
            seen.add(k)
            out.append((i, x, y))
            if len(out) >= limit:
                break
    return out


def classify(component, x, y):
    """Structural class of a differing line pair (no values, no addresses)."""
    if component.startswith("listing"):
        if norm_code_repr(x) == norm_code_repr(y):
            return "code-object-repr"
        if norm_long(norm_code_repr(x)) == norm_long(norm_code_repr(y)):
            return "long-suffix"
        if norm_escapes(x) == norm_escapes(y):
            # same text; one host's str.__repr__ shows a character the other host's Unicode database does not know as printable
            return "text-printability"
        if "xasm" in component:
            return "xasm:" + ("name" if ("Method Name" in x or "Method Name" in y or "_0x?" in x or "_0x?" in y) else "other")
        for s in (x, y):
            if s.startswith("#"):
                return "header:" + re.sub(r"[^A-Za-z ]", "", s.split(":")[0])[:30].strip().replace(" ", "_")
        m = re.search(r"\b([A-Z][A-Z_0-9+]{2,})\b", x) or re.search(r"\b([A-Z][A-Z_0-9+]{2,})\b", y)
        return "line:" + (m.group(1) if m else "other")
    if component.startswith("tree"):
        parts = x.split(" ")
        return "field:" + (parts[1] if len(parts) > 1 else "?")
    if component.startswith("stream"):
        parts = x.split(" ")
        if parts and parts[0] in ("labels", "linestarts", "raises", "@code"):
            return parts[0]
        return "inst:" + (parts[2] if len(parts) > 2 else "?")
    return "meta"


def run(tier, scratch, t0, replay=None):
    res = K.Result("C07")
    quick = tier == "quick"
    hosts = sorted(K.available_hosts())
    items = []
    corp = K.corpus_files()
    rng = K.rng_for("C07")
    # corpus files of a *host's* release that do not carry that host's own magic (pre-release files such as 3.8's 3401):
    # the host must not take its native fast path for them - always in the sample
    import struct

    host_magic = {(3, 8): 3413, (3, 9): 3425, (3, 10): 3439, (3, 11): 3495, (3, 12): 3531, (3, 13): 3571}  # CPython's registry
    pre = []
    for p in corp:
        d = os.path.basename(os.path.dirname(p)).replace("bytecode_", "")
        try:
            v = tuple(int(x) for x in d.split("."))
        except ValueError:
            continue
        if v in host_magic:
            with open(p, "rb") as f:
                m = struct.unpack("<H", f.read(2))[0]
            if m != host_magic[v]:
                pre.append(p)
    res.count("c07_host_release_files_with_foreign_magic", len(pre))
    if quick:
        corp = [p for p in rng.sample(corp, 90) if os.path.getsize(p) < 9000][:60]
    corp = sorted(set(corp) | set(pre))
    for p in corp:
        vtag = os.path.basename(os.path.dirname(p)).replace("bytecode_", "")
        items.append({"pyc": p, "label": "corpus/" + vtag + "/" + os.path.basename(p), "vtag": vtag})
    batches = D.build_batches(scratch, sorted(K.available_interps()), tier, "C07", n_stdlib=3 if quick else 80, n_gen=4 if quick else 60, batch=40,
                              with_corpus=False, gen_snippets=3 if quick else None,
                              focus=["frozenset", "shared_consts", "FLAG_REF", "backward_lines", "line_gaps", "int", "text", "closure"],
                              must_templates=["t_opcode_zoo", "t_opcode_zoo2", "t_new_unicode", "t_set_of_bytes", "t_long_loop", "t_shared_frozenset", "t_shared_big_tuple", "t_backward_lines", "t_line_gaps",
                                              "t_strings", "t_floats", "t_closure", "t_try_nest"])

    def compile_batch(b):
        tf, err = K.run_truth(b["v"], "compile", {"items": b["items"], "sections": [], "mode": "compile"}, b["workdir"], b["tag"])
        return b, tf, err

    for b, tf, err in K.pmap(compile_batch, batches):
        if tf is None:
            res.inconclusive.append("compile %s: %s" % (K.vstr(b["v"]), err))
            continue
        for it in b["items"]:
            if os.path.exists(it["pyc"]) and os.path.getsize(it["pyc"]) < (9000 if quick else 40000):
                items.append({"pyc": it["pyc"], "label": "fresh/%s/%s" % (K.vstr(b["v"]), os.path.basename(it["src"])),
                              "vtag": K.vstr(b["v"])})
    chunks = list(K.chunks(items, 9 if quick else 40))
    jobs = [(h, i, ch) for h in hosts for i, ch in enumerate(chunks)]

    def job(j):
        h, i, ch = j
        side = os.path.join(scratch.root, "side-h%d%d-%d.json" % (h[0], h[1], i))
        return K.run_agent(h, "digest", {"files": ch, "formats": FORMATS, "side": side}, scratch.root,
                           "dg-h%d%d-%d" % (h[0], h[1], i), timeout=3000)

    by_file = {}
    sides = {}
    for j, (out, err, so, se) in zip(jobs, K.pmap(job, jobs)):
        if out is None:
            res.inconclusive.append("host %s batch %d: %s" % (K.vstr(j[0]), j[1], err))
            continue
        h = tuple(out["host"])
        for label, comps in out["files"].items():
            by_file.setdefault(label, {})[h] = comps
            sides[(h, label)] = out["side"]
        res.count("digest_runs")

    side_cache = {}

    def rendering(h, label, comp):
        p = sides[(h, label)]
        if p not in side_cache:
            if len(side_cache) > 6:
                side_cache.clear()
            with open(p) as f:
                side_cache[p] = json.load(f)
        return side_cache[p]["files"][label].get(comp, "")

    vt = dict((it["label"], it["vtag"]) for it in items)
    for label, per_host in sorted(by_file.items()):
        hs = sorted(per_host)
        if len(hs) < 2:
            continue
        base = hs[0]
        comps = sorted(set(k for h in hs for k in per_host[h]) - set(k for k in per_host[base] if "@" in k))
        comps = [c for c in comps if "@" not in c]
        # (a) across hosts
        for comp in comps:
            for h in hs[1:]:
                res.evaluations += 1
                a, b = per_host[base].get(comp), per_host[h].get(comp)
                if a != b:
                    ra, rb = rendering(base, label, comp), rendering(h, label, comp)
                    for i, x, y in diff_lines(ra, rb):
                        res.mismatches.append({"key": "C07|across-hosts|%s|%s|v%s" % (comp, classify(comp, x, y), vt.get(label, "?")),
                                               "detail": {"file": label, "hosts": [K.vstr(base), K.vstr(h)], "line": i,
                                                          K.vstr(base): x[:200], K.vstr(h): y[:200]}})
        # (b) across loader paths on the host whose version is the file's
        for h in hs:
            comps_h = per_host[h]
            for comp, v in sorted(comps_h.items()):
                if "@" not in comp:
                    continue
                basecomp = comp.split("@")[0] + (":" + comp.split(":")[1] if ":" in comp else "")
                if basecomp not in comps_h:
                    continue
                res.evaluations += 1
                res.count("c07_loader_path_comparisons")
                if comps_h[basecomp] != v:
                    ra, rb = rendering(h, label, basecomp), rendering(h, label, comp)
                    for i, x, y in diff_lines(ra, rb):
                        res.mismatches.append({"key": "C07|loader-paths|%s|%s|h%s" % (comp, classify(basecomp, x, y), K.vstr(h)),
                                               "detail": {"file": label, "host": K.vstr(h), "line": i, "native-fast-path": x[:200],
                                                          comp.split("@")[1]: y[:200]}})
        if "tree" in per_host[base]:
            res.distinct.add(K.sha(label))
        if len(res.samples) < 4:
            res.sample({"file": label, "hosts": [K.vstr(h) for h in hs], "components": comps[:4]})
    res.count("files", len(by_file))
    if not res.counters.get("c07_loader_path_comparisons"):
        res.inconclusive.append("no loader-path comparison was reached")
    return K.finish(res, tier, "exploration", RULE, t0,
                    assumptions=["consensus oracle: no external reference is needed for an invariance property",
                                 "banner line naming the host and 0x... addresses are masked"], min_eval=1000)
