"""C19 - freeze() encodes a line table that decodes back to the same mapping."""
from .. import common as K

# portable type -> (reference interpreter that reads the identical on-disk format, signed line deltas?)
TYPES = {
    "Code2": ((2, 7), False),
    "Code3@3.5": ((2, 7), False),   # 3.0-3.5 co_lnotab is the 2.7 format (format-equivalent reference)
    "Code3@3.7": ((3, 7), True),
    "Code38": ((3, 8), True),
    "Code310": ((3, 10), True),
}
RULE = ("seeded increasing offset sequences (gaps 0..1000, incl. 254/255/256/510) x co_firstlineno (equal to / below / - signed formats - above the first instruction's line) x line sequences (deltas across +-127, +-128, +-255, "
        "+-256, +-1000; decreasing lines only where the format allows) given as {offset: line} mappings to Code2, Code3 (decoded as "
        "3.5 and as 3.7), Code38, Code310; freeze() output is decoded by (a) xdis's line-start routine for that code type and (b) the "
        "matching CPython, which installs the encoded bytes in a code object and reports dis.findlinestarts; both must give back the "
        "offset -> line step function of the input (translation validation of each encoder output). A raise on a representable mapping "
        "is a violation. programs = mappings frozen; distinct = mapping; non-trivial = >= 2 entries")


def step(pairs, queries):
    out = []
    ps = sorted(pairs)
    for q in queries:
        cur = None
        for o, l in ps:
            if o <= q:
                cur = l
        out.append(cur)
    return out


def gap_class(offs, lines):
    og = max([b - a for a, b in zip(offs, offs[1:])] or [0])
    ld = [b - a for a, b in zip(lines, lines[1:])] or [0]
    oc = "ogap<=255" if og <= 255 else "ogap>255"
    mx, mn = max(ld), min(ld)
    if mn < -128:
        lc = "ldelta<-128"
    elif mn < 0:
        lc = "ldelta-negative"
    elif mx >= 256:
        lc = "ldelta>=256"
    elif mx >= 128:
        lc = "ldelta128-255"
    else:
        lc = "ldelta0-127"
    return oc + "," + lc


def gen_case(rng, ctype, signed):
    n = rng.randrange(1, 8)
    offs = [0]
    for _ in range(n):
        g = rng.choice([2, 2, 4, 6, 10, 100, 254, 256, 258, 510, 512, 1000]) if rng.random() < 0.8 else 2 * rng.randrange(1, 400)
        offs.append(offs[-1] + g)
    lines = [rng.choice([1, 5, 1000])]
    for _ in range(n):
        mags = [0, 1, 2, 10, 126, 127, 128, 129, 254, 255, 256, 257, 1000]
        d = rng.choice(mags)
        if signed and rng.random() < 0.35:
            d = -d
        nl = lines[-1] + d
        if nl < 1:
            nl = lines[-1] + abs(d)
        lines.append(nl)
    # usually consecutive entries carry different lines; every fourth mapping keeps entries that repeat the line in effect
    # (no line start there, but the encoder must still account for their offset gap)
    keep_repeats = rng.random() < 0.25
    o2, l2 = [offs[0]], [lines[0]]
    for o, l in zip(offs[1:], lines[1:]):
        if l != l2[-1] or keep_repeats:
            o2.append(o)
            l2.append(l)
    # every fifth mapping starts above offset 0: the code before it is on co_firstlineno
    if rng.random() < 0.2:
        sh = rng.choice([2, 4, 6, 100, 254, 256, 300])
        o2 = [o + sh for o in o2]
    # co_firstlineno need not be the line of the first instruction (a `def` line followed by its body; decorators): the
    # first table entry then carries a line step at offset gap 0.  Below it only where the format has signed steps.
    fl = l2[0]
    r = rng.random()
    if r < 0.45:
        d = rng.choice([1, 1, 2, 3, 127, 128, 129, 255, 256, 300])
        if fl - d >= 1:
            fl = fl - d
        elif signed and r < 0.1:
            fl = fl + d
    return {"ctype": ctype, "offsets": o2, "lines": l2, "form": "dict", "code_len": o2[-1] + 10, "firstlineno": fl,
            "refreeze": rng.random() < 0.15}


def run(tier, scratch, t0, replay=None):
    res = K.Result("C19")
    quick = tier == "quick"
    rng = K.rng_for("C19")
    cases = []
    for ctype, (v, signed) in sorted(TYPES.items()):
        for _ in range(400 if quick else 20000):
            cases.append(gen_case(rng, ctype, signed))
    chunks = list(K.chunks(cases, 500))

    def job(ci):
        i, ch = ci
        return K.run_agent(K.MAIN_HOST, "freeze", {"cases": ch}, scratch.root, "fz%d" % i, timeout=1200)

    recs = []
    for (i, ch), (out, err, so, se) in zip(enumerate(chunks), K.pmap(job, list(enumerate(chunks)))):
        if out is None:
            res.inconclusive.append("freeze batch %d: %s" % (i, err))
            recs += [None] * len(ch)
        else:
            recs += out["cases"]
    # reference decode of the encoded tables by the matching CPython
    by_v = {}
    for idx, (c, r) in enumerate(zip(cases, recs)):
        if r is None or "error" in r:
            continue
        v = TYPES[c["ctype"]][0]
        by_v.setdefault(v, []).append(idx)
    truth = {}

    def tjob(v):
        idxs = by_v[v]
        items = [{"code_len": cases[i]["code_len"], "firstlineno": cases[i]["firstlineno"], "table": recs[i]["table"]} for i in idxs]
        tf, err = K.run_truth(v, "linetab", {"items": items}, scratch.root, "lt%d%d" % v, timeout=1200)
        return v, tf, err

    for v, tf, err in K.pmap(tjob, sorted(by_v)):
        if tf is None:
            res.inconclusive.append("linetab in %s: %s" % (K.vstr(v), err))
            continue
        for i, t in zip(by_v[v], K.read_jsonl(tf)):
            truth[i] = t
    disagreements = 0
    for idx, (c, r) in enumerate(zip(cases, recs)):
        if r is None:
            continue
        res.evaluations += 1
        cls = gap_class(c["offsets"], c["lines"])
        want_pairs = list(zip(c["offsets"], c["lines"]))
        if c["offsets"][0] > 0:
            want_pairs = [(0, c["firstlineno"])] + want_pairs
            cls += ",first-offset>0"
            res.count("c19_mapping_starts_above_offset_0")
        if any(a == b for a, b in zip(c["lines"], c["lines"][1:])):
            cls += ",repeated-line"
            res.count("c19_mapping_with_repeated_line_entries")
        queries = sorted(set([0] + c["offsets"] + [o + 2 for o in c["offsets"]] + [c["code_len"] - 2]))
        want = step(want_pairs, queries)
        det = {"offsets": c["offsets"], "lines": c["lines"], "form": c["form"], "firstlineno": c["firstlineno"]}
        if c.get("refreeze"):
            cls += ",frozen-before"
            res.count("c19_mapping_supplied_to_an_already_frozen_object")
        if c["firstlineno"] != c["lines"][0]:
            cls += ",first-line-step"
            res.count("c19_first_instruction_not_on_firstlineno")
        if "error" in r:
            res.mismatches.append({"key": "C19|%s|freeze-raises:%s|%s" % (c["ctype"], r["error"], cls), "detail": dict(det, msg=r.get("msg"))})
            disagreements += 1
            continue
        got_x = step([tuple(p) for p in r["decoded"]], queries)
        if got_x != want:
            res.mismatches.append({"key": "C19|%s|xdis-decoder-disagrees|%s" % (c["ctype"], cls),
                                   "detail": dict(det, table=r["table"], decoded=r["decoded"][:10])})
            disagreements += 1
        t = truth.get(idx)
        if t is None:
            res.count("c19_no_reference")
        elif not t.get("ok"):
            res.mismatches.append({"key": "C19|%s|cpython-rejects-table|%s" % (c["ctype"], cls),
                                   "detail": dict(det, table=r["table"], error=t.get("error"))})
            disagreements += 1
        else:
            res.count("c19_reference_decodes")
            got_c = step([tuple(p) for p in t["linestarts"] if p[1] is not None], queries)
            if got_c != want:
                res.mismatches.append({"key": "C19|%s|cpython-decoder-disagrees|%s" % (c["ctype"], cls),
                                       "detail": dict(det, table=r["table"], cpython=t["linestarts"][:10])})
                disagreements += 1
        if len(c["offsets"]) >= 2:
            res.distinct.add(K.sha([c["ctype"], c["offsets"], c["lines"], c["firstlineno"]]))
        if len(res.samples) < 5 and idx % 97 == 0:
            res.sample({"ctype": c["ctype"], "offsets": c["offsets"], "lines": c["lines"], "form": c["form"], "encoded": r.get("table")})
    return K.finish(res, tier, "translation_validation", RULE, t0,
                    assumptions=["2.7 judges the Code2 and Code3-as-3.5 tables (identical on-disk format)"], min_eval=500,
                    level_extra={"programs": res.evaluations, "disagreements_checked": disagreements})
