"""C11 - corrupt or hostile bytecode files fail cleanly."""
import os

from .. import common as K
from .. import diffpipe as D

RULE = ("fault enumeration over seed files of every version (historical corpus + files freshly compiled by each reference "
        "interpreter): every prefix (all for small seeds, sampled beyond), single-byte mutations {00, FF, ^80, +1, -1, random} at "
        "every / sampled positions, 1-8 byte inserts and deletes, non-bytecode files (empty, short, text, random, foreign / interim / "
        "dropbox magics) and targeted adversarial marshal streams (absurd lengths on every length-prefixed type, out-of-range / "
        "forward / self references, unknown type codes, unterminated dicts, 200..20000-deep nesting, extreme code-object header "
        "fields); each case goes through xdis.load.load_module under observers: outcome class at the API boundary (7-tuple or "
        "ImportError only), logical step budget (sys.monitoring PY_START+JUMP+BRANCH on repo code, linear in size), traced peak memory "
        "(tracemalloc, sampled + all adversarial), audit events (exec/compile judged by stack origin, imports outside stdlib/xdis, "
        "open-for-write, remove/rename/spawn/socket), scratch-directory listing before/after; plus a CPU-time scaling monitor on "
        "n-element containers. one evaluation = one hostile file; distinct = SHA-1 of bytes differing from every valid seed")


def run(tier, scratch, t0, replay=None):
    res = K.Result("C11")
    quick = tier == "quick"
    rng = K.rng_for("C11")
    seeds = []
    corp = K.corpus_files()
    small = [p for p in corp if os.path.getsize(p) < (3000 if quick else 8000)]
    by_dir = {}
    for p in small:
        by_dir.setdefault(os.path.dirname(p), []).append(p)
    for d, ps in sorted(by_dir.items()):
        seeds += rng.sample(ps, min(len(ps), 2 if quick else 4))
    # the dropbox-encrypted file goes through a reader of its own (xdis.dropbox): always a seed
    seeds += [p for p in corp if "dropbox" in p and p not in seeds]
    # fresh seeds from every reference interpreter (incl. 3.13, which the corpus lacks)
    batches = D.build_batches(scratch, sorted(K.available_interps()), tier, "C11", n_stdlib=0, n_gen=2 if quick else 12, batch=40,
                              with_corpus=False, gen_snippets=2)
    for b in batches:
        tf, err = K.run_truth(b["v"], "compile", {"items": b["items"], "sections": [], "mode": "compile"}, b["workdir"], b["tag"])
        if tf is None:
            res.inconclusive.append("compile %s: %s" % (K.vstr(b["v"]), err))
            continue
        for it in b["items"]:
            if os.path.exists(it["pyc"]) and os.path.getsize(it["pyc"]) < (4000 if quick else 30000):
                seeds.append(it["pyc"])
    rng.shuffle(seeds)
    nparts = K.NCPU
    parts = [seeds[i::nparts] for i in range(nparts)]
    hosts_for_part = [K.MAIN_HOST] * nparts
    if (3, 8) in K.available_hosts():
        hosts_for_part[1] = (3, 8)
    if (3, 13) in K.available_hosts():
        hosts_for_part[2] = (3, 13)

    def job(i, isolate=False):
        wd = os.path.join(scratch.root, "hostile-%d%s" % (i, "-iso" if isolate else ""))
        a = {"isolate": isolate, "seeds": parts[i], "seed": K.get_seed(), "part": i, "workdir": wd,
             "prefix_limit": 400 if quick else 2048, "positions": 90 if quick else 2048, "insdel": 30 if quick else 100,
             "nonbytecode": i == 0 or hosts_for_part[i] != K.MAIN_HOST, "adversarial": i in (0, 1, 2), "big": not quick}
        return K.run_agent(hosts_for_part[i], "hostile", a, scratch.root, "hostile-%d%s" % (i, "i" if isolate else ""), timeout=2400 if tier == "quick" else 14000)

    outs = K.pmap(job, list(range(nparts)))
    for i, (out, err, so, se) in enumerate(outs):
        if out is None:
            # a worker that died is a process-level observation: crash => violation, watchdog alone => inconclusive
            if err and "timeout" in err:
                res.inconclusive.append("hostile worker %d watchdog: %s" % (i, err))
                continue
            # pin the culprit: re-run this part with one forked child per case
            iso, ierr, _so, _se = job(i, isolate=True)
            if iso is not None and iso.get("mismatches"):
                res.merge_agent(iso)
                res.count("c11_dead_workers_pinned")
            else:
                res.mismatches.append({"key": "C11|worker-process-died-unpinned", "detail": {"part": i, "host": K.vstr(hosts_for_part[i]),
                                                                                             "error": (err or "")[-400:], "isolate_error": ierr}})
            continue
        res.merge_agent(out)
        res.count("hostile_workers")
        res.count("cases_host_" + K.vstr(hosts_for_part[i]), out["evaluations"])
    sc, err, so, se = K.run_agent(K.MAIN_HOST, "scaling", {"workdir": os.path.join(scratch.root, "scaling"),
                                                          "codes": ["(", "[", "<", ">", "{", "l", "s"],
                                                          "sizes": [20000, 40000, 80000] if quick else [40000, 80000, 160000, 320000]},
                                 scratch.root, "scaling", timeout=3000)
    if sc is None:
        res.inconclusive.append("scaling monitor: %s" % err)
    else:
        res.merge_agent(sc)
        res.extra["scaling_observations"] = sc.get("samples", [])
    res.extra["seed_files"] = len(seeds)
    if res.counters.get("c11_case_watchdog_fired_inconclusive"):
        res.inconclusive.append("per-case wall-clock watchdog fired %d time(s) on a host without a step counter" %
                                res.counters["c11_case_watchdog_fired_inconclusive"])
    if not any(k.startswith("outcome:ImportError") for k in res.counters):
        res.inconclusive.append("no hostile case was refused: generator ineffective")
    return K.finish(res, tier, "fault_enumeration", RULE, t0,
                    assumptions=["a RecursionError that xdis's own catch-all converts to ImportError at the default recursion limit is a "
                                 "clean failure (counted)", "step/memory budgets are linear bounds calibrated on valid files x10+",
                                 "traceback.print_exc() on the error path writes to stderr and compiles xdis's OWN source lines: judged "
                                 "by stack origin, not flagged"], min_eval=2000)
