"""C15 - stack effects equal the interpreter's for every opcode and operand."""
from .. import common as K

VERSIONS = [(3, 6), (3, 7), (3, 8), (3, 9), (3, 10), (3, 11), (3, 12), (3, 13)]
RULE = ("grid: every opcode defined in V (real opcodes < 256) x operands {0..300} U {2^k-1, 2^k, 2^k+1 | k < 29} (operands < 2^29 so CPython's C int arithmetic cannot wrap) U seeded "
        "samples (quick) / {0..65536} U EXTENDED_ARG-range samples (thorough); reference = dis.stack_effect(op, arg) run inside "
        "V (jump unspecified); a pair CPython rejects (ValueError) is removed; observed through xdis.cross_dis.xstack_effect and "
        "make_std_api(V).stack_effect on the 3.12 host and natively through xdis.std on each host for its own version. "
        "distinct = (version, opcode, operand); non-trivial = opcode takes an operand. 2.7 has no dis.stack_effect -> no reference")


def operands(tier, rng):
    s = set(range(0, 301))
    # operands stay below 2^29 so that CPython's own C-int arithmetic (2*oparg + k) cannot wrap
    for k in range(0, 30):
        for d in (-1, 0, 1):
            x = (1 << k) + d
            if 0 <= x < (1 << 29):
                s.add(x)
    if tier == "quick":
        for _ in range(60):
            s.add(rng.randrange(1 << rng.randrange(1, 29)))
    else:
        s |= set(range(0, 65537))
        for _ in range(3000):
            s.add(rng.randrange(1 << rng.randrange(16, 29)))
    return sorted(s)


def run(tier, scratch, t0, replay=None):
    res = K.Result("C15")
    rng = K.rng_for("C15")
    argl = operands(tier, rng)

    def truth(v):
        return v, K.run_truth(v, "stackeffect", {"args": argl}, scratch.root, "se%d%d" % v, timeout=3000)

    files = {}
    for v, (tf, err) in K.pmap(truth, [v for v in VERSIONS if v in K.available_interps()]):
        if tf is None:
            res.inconclusive.append("stack_effect of %s: %s" % (K.vstr(v), err))
        else:
            files[v] = tf
    jobs = [(K.MAIN_HOST, [files[v]], False) for v in sorted(files)]
    for h in sorted(K.available_hosts()):
        if h in files:
            jobs.append((h, [files[h]], True))

    def job(j):
        h, tfs, native = j
        return K.run_agent(h, "stackeffect", {"truth_files": tfs, "native": native}, scratch.root,
                           "se-h%d%d-%s-%d" % (h[0], h[1], "n" if native else "x", abs(hash(tfs[0])) % 100000), timeout=3000)

    for j, (out, err, so, se) in zip(jobs, K.pmap(job, jobs)):
        if out is None:
            res.inconclusive.append("host %s: %s" % (K.vstr(j[0]), err))
            continue
        res.merge_agent(out)
        res.count("agent_runs")
    res.extra["exhaustive"] = tier == "thorough"
    res.extra["operands_per_opcode"] = len(argl)
    return K.finish(res, tier, "exploration", RULE, t0,
                    assumptions=["dis.stack_effect of the installed 3.6-3.13 interpreters is the reference",
                                 "2.x/3.0-3.5 have no reference here and are not claimed"], min_eval=10000)
